#!/bin/sh
# Builds /repo without the verification guard and runs the repository's own test suite.
set -e
B=/tmp/clipper2_baseline_off_build
rm -rf "$B"
cmake -G Ninja -S /repo/CPP -B "$B" -DCMAKE_BUILD_TYPE=RelWithDebInfo -DUSE_EXTERNAL_GTEST=ON -DCLIPPER2_EXAMPLES=OFF >/dev/null
cmake --build "$B" -j16 >/dev/null
ctest --test-dir "$B" -j8 --timeout 900
rc=$?
rm -rf "$B"
exit $rc
