// Reproducer: segfault in the UNMODIFIED Clipper2 library on a small rectilinear input.
// Build: g++ -std=c++17 -O1 -g -I/repo/CPP/Clipper2Lib/include crash.cpp /repo/CPP/Clipper2Lib/src/*.cpp -o crash
// Found by random rectilinear-walk fuzzing (seed 242135 on a 0..6 lattice), then shrunk.
// Only the PolyTree64 Execute overload crashes (Xor, EvenOdd, PreserveCollinear=false);
// the Paths64 overload returns normally on the same input.
#include "clipper2/clipper.h"
#include <cstdio>
using namespace Clipper2Lib;

int main()
{
  Paths64 subj{
    MakePath({ 1,1, 6,1, 6,2, 4,2, 4,0, 1,0 }),   // self-intersecting walk
    MakePath({ 0,1, 5,1, 2,1, 2,0, 0,0 }) };      // rectangle with a zero-width spike on y=1
  Paths64 clip{
    MakePath({ 3,0, 2,0, 2,1, 5,1, 5,2, 3,2 }) }; // self-intersecting walk

  {
    Clipper64 c;
    c.PreserveCollinear(false);
    c.AddSubject(subj);
    c.AddClip(clip);
    Paths64 sol;
    bool ok = c.Execute(ClipType::Xor, FillRule::EvenOdd, sol);
    printf("Paths64 variant: ok=%d, %zu paths\n", (int)ok, sol.size());
    fflush(stdout);
  }

  Clipper64 c;
  c.PreserveCollinear(false);
  c.AddSubject(subj);
  c.AddClip(clip);
  PolyTree64 tree;
  bool ok = c.Execute(ClipType::Xor, FillRule::EvenOdd, tree); // <-- crashes here
  printf("PolyTree64 variant: ok=%d, %zu top-level children (no crash)\n", (int)ok, tree.Count());
  return 0;
}
