#include "clipper2/clipper.h"
#include <cstdio>
#include <random>
#include <set>
#include <map>
using namespace Clipper2Lib;
typedef std::pair<int64_t,int64_t> XY;
static std::map<XY, std::set<int64_t>> cbTags;
static int64_t nextTag;
static void cb(const Point64&a, const Point64&b, const Point64&c, const Point64&d, Point64& pt){
  printf(" cb (%ld,%ld)-(%ld,%ld) x (%ld,%ld)-(%ld,%ld) -> pt %ld,%ld z_in=%ld tag=%ld\n",a.x,a.y,b.x,b.y,c.x,c.y,d.x,d.y,pt.x,pt.y,pt.z,nextTag);
  pt.z = nextTag++; cbTags[{pt.x,pt.y}].insert(pt.z);
}
int main(int argc,char**argv){
  int seed=atoi(argv[1]); int R=atoi(argv[2]); int NV=atoi(argv[3]); int ct=atoi(argv[4]); int fr=atoi(argv[5]);
    std::mt19937 rng(seed);
    std::uniform_int_distribution<int> d(0,R);
    int ns = NV, nc = (seed%2)? NV:0;
    std::vector<Point64> all; Path64 s,c;
    for(int i=0;i<ns;i++){ Point64 p(d(rng),d(rng),(int64_t)(i+1)); s.push_back(p); all.push_back(p);}
    for(int i=0;i<nc;i++){ Point64 p(d(rng),d(rng),(int64_t)(100+i+1)); c.push_back(p); all.push_back(p);}
    printf("subj:"); for(auto&p:s)printf(" %ld,%ld,%ld ",p.x,p.y,p.z); printf("\nclip:"); for(auto&p:c)printf(" %ld,%ld,%ld ",p.x,p.y,p.z); printf("\n");
      cbTags.clear(); nextTag=1000000;
      Clipper64 cl; cl.SetZCallback(cb);
      cl.AddSubject({s}); if(nc) cl.AddClip({c});
      Paths64 sol; cl.Execute((ClipType)ct,(FillRule)fr,sol);
      std::map<XY,std::set<int64_t>> in; for(auto&p:all) in[{p.x,p.y}].insert(p.z);
      for(auto&path:sol){ printf("path:\n"); for(auto&p:path){
        XY k{p.x,p.y}; bool ok=false;
        auto a=in.find(k); if(a!=in.end()&&a->second.count(p.z))ok=true;
        auto b=cbTags.find(k); if(b!=cbTags.end()&&b->second.count(p.z))ok=true;
        printf("  %ld,%ld z=%ld %s\n",p.x,p.y,p.z, ok?"":"<== BAD");
      }}
}
