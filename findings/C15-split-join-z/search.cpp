#include "clipper2/clipper.h"
#include <cstdio>
#include <random>
#include <set>
#include <map>
using namespace Clipper2Lib;
typedef std::pair<int64_t,int64_t> XY;
static std::map<XY, std::set<int64_t>> cbTags;
static int64_t nextTag;
static void cb(const Point64&, const Point64&, const Point64&, const Point64&, Point64& pt){
  pt.z = nextTag++; cbTags[{pt.x,pt.y}].insert(pt.z);
}
static bool generalPos(const std::vector<Point64>& pts){
  size_t n=pts.size();
  for(size_t i=0;i<n;i++)for(size_t j=i+1;j<n;j++){
    if(pts[i]==pts[j])return false;
    if(pts[i].y==pts[j].y||pts[i].x==pts[j].x)return false;
    for(size_t k=j+1;k<n;k++) if(CrossProduct(pts[i],pts[j],pts[k])==0)return false;
  }
  return true;
}
int main(int argc,char**argv){
  int from=atoi(argv[1]), to=atoi(argv[2]); int R=atoi(argv[3]); int NV=atoi(argv[4]);
  int bad=0;
  for(int seed=from;seed<to;seed++){
    std::mt19937 rng(seed);
    std::uniform_int_distribution<int> d(0,R);
    int ns = NV, nc = (seed%2)? NV:0;
    std::vector<Point64> all; Path64 s,c;
    for(int i=0;i<ns;i++){ Point64 p(d(rng),d(rng),(int64_t)(i+1)); s.push_back(p); all.push_back(p);}
    for(int i=0;i<nc;i++){ Point64 p(d(rng),d(rng),(int64_t)(100+i+1)); c.push_back(p); all.push_back(p);}
    if(!generalPos(all))continue;
    for(int ct=1;ct<=4;ct++) for(int fr=0;fr<2;fr++){
      if(!nc && ct!=2) continue;
      cbTags.clear(); nextTag=1000000;
      Clipper64 cl; cl.SetZCallback(cb);
      cl.AddSubject({s}); if(nc) cl.AddClip({c});
      Paths64 sol; cl.Execute((ClipType)ct,(FillRule)fr,sol);
      std::map<XY,std::set<int64_t>> in; for(auto&p:all) in[{p.x,p.y}].insert(p.z);
      bool fail=false;
      for(auto&path:sol)for(auto&p:path){
        XY k{p.x,p.y}; bool ok=false;
        auto a=in.find(k); if(a!=in.end()&&a->second.count(p.z))ok=true;
        auto b=cbTags.find(k); if(b!=cbTags.end()&&b->second.count(p.z))ok=true;
        if(!ok){fail=true;}
      }
      if(fail){bad++; printf("FAIL seed=%d ct=%d fr=%d\n",seed,ct,fr);}
    }
  }
  printf("bad=%d\n",bad);
}
