// C11 (argument validation, no-exceptions build) and C16 (PathsD API == integer API on scaled coordinates).
#include "src/clipper.engine.cpp"
#include "src/clipper.offset.cpp"
#include "src/clipper.rectclip.cpp"
#include "clipper2/clipper.minkowski.h"
#include "harness.h"
#include <cmath>
using namespace Clipper2Lib;

static inline bool finite_d(double d) { return d == d && d - d == 0.0; }
static inline double nd_fin() { double d = nondet_double(); ASSUME(finite_d(d)); return d; }
static bool same_double(double a, double b) { uint64_t x, y; __builtin_memcpy(&x, &a, 8); __builtin_memcpy(&y, &b, 8); return x == y; }

// C11.c: CheckPrecisionRange reports exactly the out-of-range precisions and clamps
extern "C" void harness_check_precision() {
  int p = nondet_i32(), ec0 = nondet_i32(), ec = ec0, p0 = p;
  CheckPrecisionRange(p, ec);
  if (p0 >= -8 && p0 <= 8) { VA(ec == ec0); VA(p == p0); }
  else { VA((ec & precision_error_i) != 0); VA((ec | precision_error_i) == (ec0 | precision_error_i)); VA(p == (p0 > 0 ? 8 : -8)); }
  verif_reach();
}

#ifndef SCALE
#define SCALE 100.0
#endif
// C11.c / C16.a: ScalePaths<int64,double>: range error iff a scaled coordinate leaves +-MAX_COORD; else round-to-nearest of x*scale
extern "C" void harness_scalepaths_range() {
  PathsD in(1);
  double x0 = nd_fin(), y0 = nd_fin(), x1 = nd_fin(), y1 = nd_fin();
  in[0].push_back(PointD(x0, y0)); in[0].push_back(PointD(x1, y1));
  int ec = 0;
  const double s = SCALE;
  Paths64 out = ScalePaths<int64_t, double>(in, s, ec);
  bool bad = x0 * s < min_coord || x0 * s > max_coord || x1 * s < min_coord || x1 * s > max_coord ||
             y0 * s < min_coord || y0 * s > max_coord || y1 * s < min_coord || y1 * s > max_coord;
  VA(((ec & range_error_i) != 0) == bad);
  if (bad) VA(out.empty());
  else {
    VA(ec == 0);
    VA(out.size() == 1 && out[0].size() == 2);
    VA(out[0][0].x == (int64_t)std::round(x0 * s) && out[0][0].y == (int64_t)std::round(y0 * s));
    VA(out[0][1].x == (int64_t)std::round(x1 * s) && out[0][1].y == (int64_t)std::round(y1 * s));
  }
  verif_reach();
}

// C11.c / C20.d: the bounds used by the range check are the true min/max over all vertices (all finite doubles)
static inline double dmin(double a, double b) { return a < b ? a : b; }
static inline double dmax(double a, double b) { return a > b ? a : b; }
extern "C" void harness_getbounds_d() {
  PathsD in(2);
  double x0 = nd_fin(), y0 = nd_fin(), x1 = nd_fin(), y1 = nd_fin(), x2 = nd_fin(), y2 = nd_fin();
  in[0].push_back(PointD(x0, y0)); in[0].push_back(PointD(x1, y1)); in[1].push_back(PointD(x2, y2));
  RectD r = GetBounds<double, double>(in);
  VA(r.left == dmin(x0, dmin(x1, x2)) && r.right == dmax(x0, dmax(x1, x2)));
  VA(r.top == dmin(y0, dmin(y1, y2)) && r.bottom == dmax(y0, dmax(y1, y2)));
  RectD r1 = GetBounds<double, double>(in[0]);
  VA(r1.left == dmin(x0, x1) && r1.right == dmax(x0, x1) && r1.top == dmin(y0, y1) && r1.bottom == dmax(y0, y1));
  verif_reach();
}

// C11.c: ScalePath reports a zero scale
extern "C" void harness_scalepath_zero() {
  PathD in; in.push_back(PointD(1.5, 2.5));
  double sx = nd_fin(), sy = nd_fin();
  ASSUME(sx >= -1e6 && sx <= 1e6 && sy >= -1e6 && sy <= 1e6);
  int ec = 0;
  Path64 out = ScalePath<int64_t, double>(in, sx, sy, ec);
  VA(((ec & scale_error_i) != 0) == (sx == 0 || sy == 0));
  VA(out.size() == 1);
  verif_reach();
}

// ---------------------------------------------------------------------------------------------------------------
// stub-and-observe for the PathsD wrappers: engine entry points replaced by recorders
struct Rec {
  int n_add; int64_t add_x[4], add_y[4]; int add_type[4]; bool add_open[4];
  int ct, fr; int n_exec; int64_t out_x, out_y;
  int n_off_add, n_off_exec; double off_delta, off_arc, off_miter; int off_jt, off_et; int64_t off_in_x, off_in_y;
  int n_rc; Rect64 rc_rect; int64_t rc_in_x;
};
static Rec R;
extern "C" __attribute__((noinline)) void stub_addpaths(ClipperBase* self, const Paths64& paths, PathType pt, bool is_open) {
  int i = R.n_add++; VA(i < 4);
  bool has = paths.size() && paths[0].size();
  R.add_x[i] = has ? paths[0][0].x : -1; R.add_y[i] = has ? paths[0][0].y : -1; R.add_type[i] = (int)pt; R.add_open[i] = is_open;
}
extern "C" __attribute__((noinline)) bool stub_execint(ClipperBase* self, ClipType ct, FillRule fr, bool use_polytrees) {
  R.ct = (int)ct; R.fr = (int)fr; R.n_exec++; return true;
}
extern "C" __attribute__((noinline)) void stub_buildpathsD(ClipperD* self, PathsD& closed, PathsD* open) {
  // what the real BuildPathsD does with one solution ring (out_x,out_y),(1,2),(3,4): descale by invScale_
  closed.clear();
  PathD p; p.push_back(PointD(R.out_x * self->invScale_, R.out_y * self->invScale_)); p.push_back(PointD(1 * self->invScale_, 2 * self->invScale_)); p.push_back(PointD(3 * self->invScale_, 4 * self->invScale_));
  closed.push_back(p);
  if (open) open->clear();
}
extern "C" __attribute__((noinline)) void stub_cleanup(ClipperBase* self) {}
extern "C" __attribute__((noinline)) void stub_off_addpaths(ClipperOffset* self, const Paths64& paths, JoinType jt, EndType et) {
  R.n_off_add++; R.off_jt = (int)jt; R.off_et = (int)et; bool has = paths.size() && paths[0].size();
  R.off_in_x = has ? paths[0][0].x : -1; R.off_in_y = has ? paths[0][0].y : -1;
}
extern "C" __attribute__((noinline)) void stub_off_execute(ClipperOffset* self, double delta, Paths64& sol) {
  R.n_off_exec++; R.off_delta = delta; R.off_arc = self->arc_tolerance_; R.off_miter = self->miter_limit_;
  sol.clear(); sol.push_back(Path64{Point64(R.out_x, R.out_y), Point64((int64_t)1, (int64_t)2), Point64((int64_t)3, (int64_t)4)});
}
// 10^precision as the library computes it (std::pow is outside the encoding: table contract, checked natively by the self-test)
static const double P10[17] = {1e-8, 1e-7, 1e-6, 1e-5, 1e-4, 1e-3, 1e-2, 1e-1, 1e0, 1e1, 1e2, 1e3, 1e4, 1e5, 1e6, 1e7, 1e8};
static const int ILOG10[17] = {-27, -24, -20, -17, -14, -10, -7, -4, 0, 3, 6, 9, 13, 16, 19, 23, 26};   // ilogb(10^p), p = -8..8
static inline double pow2i(int k) { return k >= 0 ? (double)(1LL << k) : 1.0 / (double)(1LL << -k); }
extern "C" __attribute__((noinline)) double stub_pow(double base, double e) {
  int k = (int)e; VA((double)k == e);
  if (base == 10.0) { VA(k >= -8 && k <= 8); ASSUME(k >= -8 && k <= 8); return P10[k + 8]; }
  VA(base == 2.0); VA(k >= -40 && k <= 40); ASSUME(k >= -40 && k <= 40);
  return pow2i(k);
}
extern "C" __attribute__((noinline)) int stub_ilogb(double x) {
  for (int i = 0; i < 17; ++i) if (x == P10[i]) return ILOG10[i];
  VA(false); return 0;
}

static PathsD mk_d(double x, double y) { PathsD p(1); p[0].push_back(PointD(x, y)); p[0].push_back(PointD(1.0, 0.0)); p[0].push_back(PointD(0.0, 1.0)); return p; }

// C11.c + C16.b: BooleanOp(PathsD): bad precision => empty result, engine untouched; good precision => engine sees round(x*scale)
// with scale = 2^(ilogb(10^p)+1), clip type / fill rule unchanged, result = engine output * (1/scale)
#ifndef PREC
#define PREC 2
#endif
extern "C" void harness_booleanop_d_badprec() {
  int prec = nondet_i32();
  ASSUME(prec < -8 || prec > 8);
  PathsD subj = mk_d(nd_fin(), nd_fin()), clip = mk_d(nd_fin(), nd_fin());
  PathsD res = BooleanOp((ClipType)nd_int(1, 4), (FillRule)nd_int(0, 3), subj, clip, prec);
  VA(res.empty());
  VA(R.n_exec == 0 && R.n_add == 0);
  verif_reach();
}
extern "C" void harness_booleanop_d() {
  const int prec = PREC;
  double sx = nd_fin(), sy = nd_fin(), cx = nd_fin(), cy = nd_fin();
  const double B = 1e9;
  ASSUME(sx > -B && sx < B && sy > -B && sy < B && cx > -B && cx < B && cy > -B && cy < B);
  int ct = nd_int(1, 4), fr = nd_int(0, 3);
  R.out_x = nd_range(-(1LL << 40), 1LL << 40); R.out_y = nd_range(-(1LL << 40), 1LL << 40);
  PathsD subj = mk_d(sx, sy), clip = mk_d(cx, cy);
  PathsD res = BooleanOp((ClipType)ct, (FillRule)fr, subj, clip, prec);
  // documented scale: the smallest power of two above 10^precision
  const double scale = pow2i(ILOG10[prec + 8] + 1);
  VA(scale > P10[prec + 8] && scale * 0.5 <= P10[prec + 8]);   // it is the smallest power of two above 10^precision
  VA(R.n_add == 2 && R.n_exec == 1 && R.ct == ct && R.fr == fr);
  VA(R.add_type[0] == (int)PathType::Subject && !R.add_open[0] && R.add_type[1] == (int)PathType::Clip && !R.add_open[1]);
  VA(R.add_x[0] == (int64_t)std::round(sx * scale) && R.add_y[0] == (int64_t)std::round(sy * scale));
  VA(R.add_x[1] == (int64_t)std::round(cx * scale) && R.add_y[1] == (int64_t)std::round(cy * scale));
  VA(res.size() == 1 && res[0].size() == 3);
  VA(same_double(res[0][0].x, (double)R.out_x * (1.0 / scale)) && same_double(res[0][0].y, (double)R.out_y * (1.0 / scale)));
  verif_reach();
}

// C11.c + C16.b: InflatePaths(PathsD)
extern "C" void harness_inflate_d_badprec() {
  int prec = nondet_i32();
  ASSUME(prec < -8 || prec > 8);
  double delta = nd_fin(); ASSUME(delta != 0);
  PathsD in = mk_d(nd_fin(), nd_fin());
  PathsD res = InflatePaths(in, delta, (JoinType)nd_int(0, 3), (EndType)nd_int(0, 4), nd_fin(), prec, nd_fin());
  VA(res.empty()); VA(R.n_off_exec == 0 && R.n_off_add == 0);
  verif_reach();
}
extern "C" void harness_inflate_d() {
  const int prec = PREC;
  double x = nd_fin(), y = nd_fin(), delta = nd_fin(), ml = nd_fin(), at = nd_fin();
  const double B = 1e6;
  ASSUME(x > -B && x < B && y > -B && y < B && delta > -B && delta < B && delta != 0 && at >= 0 && at < B);
  int jt = nd_int(0, 3), et = nd_int(0, 4);
  R.out_x = nd_range(-(1LL << 40), 1LL << 40); R.out_y = nd_range(-(1LL << 40), 1LL << 40);
  PathsD in = mk_d(x, y);
  PathsD res = InflatePaths(in, delta, (JoinType)jt, (EndType)et, ml, prec, at);
  const double scale = P10[prec + 8];
  VA(R.n_off_add == 1 && R.n_off_exec == 1 && R.off_jt == jt && R.off_et == et);
#ifndef IPART     // IPART selects one group of value equalities per obligation (each is a floating-point product compared with its twin)
#define IPART 15
#endif
  if (IPART & 1) VA(R.off_in_x == (int64_t)std::round(x * scale) && R.off_in_y == (int64_t)std::round(y * scale));
  if (IPART & 2) VA(same_double(R.off_delta, delta * scale));           // delta scaled like the coordinates
  if (IPART & 8) VA(same_double(R.off_arc, at * scale));                // arc tolerance scaled alike
  VA(same_double(R.off_miter, ml));                      // miter limit is a ratio: unscaled
  VA(res.size() == 1 && res[0].size() == 3);
  if (IPART & 4) VA(same_double(res[0][0].x, (double)R.out_x * (1 / scale)) && same_double(res[0][0].y, (double)R.out_y * (1 / scale)));
  verif_reach();
}

// C11.b: ClipType::NoClip succeeds with empty solutions whatever was added
extern "C" void harness_noclip() {
  Clipper64 c;
  Paths64 subj{Path64{Point64((int64_t)0, (int64_t)0), Point64((int64_t)10, (int64_t)0), Point64((int64_t)0, (int64_t)10)}};
  c.AddSubject(subj);
  Paths64 closed{Path64{Point64((int64_t)1, (int64_t)1)}}, open{Path64{Point64((int64_t)2, (int64_t)2)}};
  bool ok = c.Execute(ClipType::NoClip, (FillRule)nd_int(0, 3), closed, open);
  VA(ok); VA(closed.empty() && open.empty());
  verif_reach();
}

// C11.b: ClipperD::Execute(NoClip) returns true and EMPTIES both solutions whatever they held before
extern "C" void harness_noclip_d() {
  ClipperD c(2);
  c.AddSubject(mk_d(0.0, 0.0));
  PathsD closed = mk_d(5.0, 5.0), open = mk_d(6.0, 6.0);      // containers reused from an earlier call
  bool ok = c.Execute(ClipType::NoClip, (FillRule)nd_int(0, 3), closed, open);
  VA(ok); VA(closed.empty() && open.empty());
  PolyTreeD t; PathsD open2 = mk_d(7.0, 7.0);
  VA(c.Execute(ClipType::NoClip, (FillRule)nd_int(0, 3), t, open2)); VA(t.Count() == 0 && open2.empty());
  verif_reach();
}

extern "C" void selftest_args() {
  for (int p = -8; p <= 8; ++p) { out_i64(same_double(std::pow(10, p), P10[p + 8])); out_i64(std::ilogb(P10[p + 8]) == ILOG10[p + 8]); }   // table contracts of stub_pow / stub_ilogb
  for (int k = -30; k <= 30; k += 7) out_i64(same_double(std::pow(2, k), pow2i(k)));
  int ec = 0; PathsD in = mk_d(1.234, -5.678);
  Paths64 o = ScalePaths<int64_t, double>(in, 100.0, ec); out_i64(o[0][0].x); out_i64(o[0][0].y); out_i64(ec);
  PathsD big = mk_d(1e19, 0); o = ScalePaths<int64_t, double>(big, 100.0, ec); out_i64(o.size()); out_i64(ec);
  ClipperD cd(2); out_f64(cd.scale_); ClipperD ce(-3); out_f64(ce.scale_); ClipperD cf(0); out_f64(cf.scale_);
}

// C16.c: PolyTreeD has the shape of the PolyTree64 of the scaled input, node for node (whole pipeline, concrete geometry whose
// raw output ring needs a self-intersection repair that creates an additional OutRec while the tree is being built)
static int count_nodes64(const PolyPath64& p) { int n = 1; for (size_t i = 0; i < p.Count(); ++i) n += count_nodes64(*p[i]); return n; }
static int count_nodesD(const PolyPathD& p) { int n = 1; for (size_t i = 0; i < p.Count(); ++i) n += count_nodesD(*p[i]); return n; }
extern "C" void harness_treed_shape() {
  const int64_t X[5] = {4, 3, 8, 11, 0}, Y[5] = {1, 0, 8, 4, 8};
  ClipperD cd(0);                                   // precision 0: scale 2
  PathsD sd(1); Paths64 s64(1);
  for (int i = 0; i < 5; ++i) { sd[0].push_back(PointD((double)X[i] * 0.5, (double)Y[i] * 0.5)); s64[0].push_back(Point64(X[i], Y[i])); }
  cd.AddSubject(sd);
  PolyTreeD td; VA(cd.Execute(ClipType::Union, FillRule::EvenOdd, td));
  Clipper64 c64; c64.AddSubject(s64);
  PolyTree64 t64; VA(c64.Execute(ClipType::Union, FillRule::EvenOdd, t64));
  VA(count_nodes64(t64) == count_nodesD(td));
  VA(t64.Count() == td.Count());
  ASSUME(count_nodes64(t64) == count_nodesD(td) && t64.Count() == td.Count());     // (asserted above) do not index a tree of the wrong shape
  for (size_t i = 0; i < 4; ++i) { if (i >= t64.Count()) break; VA(t64[i]->Polygon().size() == td[i]->Polygon().size()); VA(t64[i]->Count() == td[i]->Count()); ASSUME(t64[i]->Polygon().size() == td[i]->Polygon().size());
    for (size_t k = 0; k < 8; ++k) { if (k >= t64[i]->Polygon().size()) break; VA((double)t64[i]->Polygon()[k].x * 0.5 == td[i]->Polygon()[k].x && (double)t64[i]->Polygon()[k].y * 0.5 == td[i]->Polygon()[k].y); } }
  verif_reach();
}

