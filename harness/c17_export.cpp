// C17: C export layer -- marshalling round trips and argument forwarding (stub-and-observe).
#include "src/clipper.engine.cpp"
#include "src/clipper.offset.cpp"
#include "src/clipper.rectclip.cpp"
#include "clipper2/clipper.minkowski.h"
#include "clipper2/clipper.export.h"
#include "harness.h"
using namespace Clipper2Lib;

#ifdef USINGZ
#define DIM 3
#define MKPT(x, y) Point64((int64_t)(x), (int64_t)(y), (int64_t)nondet_i64())
#else
#define DIM 2
#define MKPT(x, y) Point64((int64_t)(x), (int64_t)(y))
#endif
#ifndef L0
#define L0 2
#endif
#ifndef L1
#define L1 0
#endif
#ifndef L2
#define L2 1
#endif
static const int LENS[3] = {L0, L1, L2};

static bool same_pt(const Point64& a, const Point64& b) {
#ifdef USINGZ
  return a.x == b.x && a.y == b.y && a.z == b.z;
#else
  return a.x == b.x && a.y == b.y;
#endif
}

// C17.a: CreateCPathsFromPathsT / ConvertCPathsToPathsT round trip, header fields, all accesses in bounds
extern "C" void harness_roundtrip64() {
  Paths64 p(3);
  size_t expect_len = 2, expect_cnt = 0;
  for (int i = 0; i < 3; ++i) {
    for (int j = 0; j < LENS[i]; ++j) p[i].push_back(MKPT(nondet_i64(), nondet_i64()));
    if (LENS[i]) { expect_len += LENS[i] * DIM + 2; ++expect_cnt; }
  }
  int64_t* arr = CreateCPathsFromPathsT(p);
  VA(arr[0] == (int64_t)expect_len);            // first element = number of elements written (= allocation length)
  VA(arr[1] == (int64_t)expect_cnt);            // path count = non-empty paths only
  ASSUME(arr[0] == (int64_t)expect_len && arr[1] == (int64_t)expect_cnt);   // (already asserted) keeps symex finite when the header is wrong
  Paths64 q = ConvertCPathsToPathsT(arr);       // CBMC bounds checks: every read stays inside new T[array_len]
  VA(q.size() == expect_cnt);
  size_t k = 0;
  for (int i = 0; i < 3; ++i) {
    if (!LENS[i]) continue;
    VA(q[k].size() == (size_t)LENS[i]);
    for (int j = 0; j < LENS[i]; ++j) VA(same_pt(q[k][j], p[i][j]));
    ++k;
  }
  verif_reach();
}

// single path round trip (ConvertCPathToPathT reads a CPath: [N, 0, coords...])
extern "C" void harness_roundtrip_path64() {
  Paths64 p(1);
  for (int j = 0; j < 2; ++j) p[0].push_back(MKPT(nondet_i64(), nondet_i64()));
  int64_t* arr = CreateCPathsFromPathsT(p);
  Path64 q = ConvertCPathToPathT(arr + 2);      // the first path record starts after the two header fields
  VA(q.size() == 2 && same_pt(q[0], p[0][0]) && same_pt(q[1], p[0][1]));
  verif_reach();
}

// ---------------------------------------------------------------------------------------------------------------
// C17.c stub-and-observe: the clipping engine entry points are replaced by recorders (at IR level, DESIGN 1.4)
struct Rec {
  int n_add; int64_t add_x[4]; int add_type[4]; bool add_open[4];
  int ct, fr; bool pres, rev, polytree; int n_exec; int n_tree, n_paths;
  int64_t out_closed_x, out_open_x;
  // offset
  double off_delta, off_miter, off_arc; bool off_pres, off_rev; int off_jt, off_et; int64_t off_in_x; int n_off_add, n_off_exec;
};
static Rec R;

extern "C" __attribute__((noinline)) void stub_addpaths(ClipperBase* self, const Paths64& paths, PathType pt, bool is_open) {
  int i = R.n_add++;
  VA(i < 4);
  R.add_x[i] = paths.size() && paths[0].size() ? paths[0][0].x : -1; R.add_type[i] = (int)pt; R.add_open[i] = is_open;
}
extern "C" __attribute__((noinline)) bool stub_execint(ClipperBase* self, ClipType ct, FillRule fr, bool use_polytrees) {
  R.ct = (int)ct; R.fr = (int)fr; R.pres = self->preserve_collinear_; R.rev = self->reverse_solution_; R.polytree = use_polytrees; R.n_exec++;
  return true;
}
extern "C" __attribute__((noinline)) void stub_buildpaths64(Clipper64* self, Paths64& closed, Paths64* open) {
  closed.clear(); closed.push_back(Path64{MKPT(R.out_closed_x, 7), MKPT(1, 2), MKPT(3, 4)});
  if (open) { open->clear(); open->push_back(Path64{MKPT(R.out_open_x, 9), MKPT(5, 6)}); }
}
extern "C" __attribute__((noinline)) void stub_cleanup(ClipperBase* self) {}

static int64_t* mk_cpaths1(int64_t x) { Paths64 p(1); p[0].push_back(MKPT(x, 0)); p[0].push_back(MKPT(1, 1)); p[0].push_back(MKPT(0, 1)); return CreateCPathsFromPathsT(p); }

extern "C" void harness_booleanop64() {
  int64_t xs = nondet_i64(), xo = nondet_i64(), xc = nondet_i64();
  ASSUME(xs != -1 && xo != -1 && xc != -1);
  uint8_t ct = nondet_u8(), fr = nondet_u8();
  bool pres = nondet_bool(), rev = nondet_bool();
  R.out_closed_x = nondet_i64(); R.out_open_x = nondet_i64();
  int64_t* subj = mk_cpaths1(xs); int64_t* open = mk_cpaths1(xo); int64_t* clip = mk_cpaths1(xc);
  int64_t* sol = nullptr; int64_t* sol_open = nullptr;
  int rc = BooleanOp64(ct, fr, subj, open, clip, sol, sol_open, pres, rev);
  if (ct > 4) { VA(rc == -4); VA(R.n_exec == 0 && R.n_add == 0); }
  else if (fr > 3) { VA(rc == -3); VA(R.n_exec == 0 && R.n_add == 0); }
  else {
    VA(rc == 0);
    VA(R.n_exec == 1 && R.ct == ct && R.fr == fr && R.pres == pres && R.rev == rev && !R.polytree);
    VA(R.n_add == 3);
    // each path set reached the engine under its own role, none mixed up
    bool s_ok = false, o_ok = false, c_ok = false;
    for (int i = 0; i < 3; ++i) {
      if (R.add_type[i] == (int)PathType::Subject && !R.add_open[i]) { VA(R.add_x[i] == xs); s_ok = true; }
      if (R.add_type[i] == (int)PathType::Subject && R.add_open[i]) { VA(R.add_x[i] == xo); o_ok = true; }
      if (R.add_type[i] == (int)PathType::Clip) { VA(R.add_x[i] == xc && !R.add_open[i]); c_ok = true; }
    }
    VA(s_ok && o_ok && c_ok);
    // the arrays returned are the marshalled engine output
    VA(sol && sol[0] == 2 + 2 + 3 * DIM && sol[1] == 1 && sol[2] == 3 && sol[4] == R.out_closed_x && sol[5] == 7);
    VA(sol_open && sol_open[0] == 2 + 2 + 2 * DIM && sol_open[1] == 1 && sol_open[2] == 2 && sol_open[4] == R.out_open_x && sol_open[5] == 9);
  }
  verif_reach();
}

// ---- offsetting: ClipperOffset::AddPaths / Execute replaced by recorders; the real constructor runs
extern "C" __attribute__((noinline)) void stub_off_addpaths(ClipperOffset* self, const Paths64& paths, JoinType jt, EndType et) {
  R.n_off_add++; R.off_jt = (int)jt; R.off_et = (int)et; R.off_in_x = paths.size() && paths[0].size() ? paths[0][0].x : -1;
}
extern "C" __attribute__((noinline)) void stub_off_addpath(ClipperOffset* self, const Path64& path, JoinType jt, EndType et) {
  R.n_off_add++; R.off_jt = (int)jt; R.off_et = (int)et; R.off_in_x = path.size() ? path[0].x : -1;
}
extern "C" __attribute__((noinline)) void stub_off_execute(ClipperOffset* self, double delta, Paths64& sol) {
  R.n_off_exec++; R.off_delta = delta; R.off_miter = self->miter_limit_; R.off_arc = self->arc_tolerance_;
  R.off_pres = self->preserve_collinear_; R.off_rev = self->reverse_solution_;
  sol.clear(); sol.push_back(Path64{MKPT(R.out_closed_x, 7), MKPT(1, 2), MKPT(3, 4)});
}
static bool same_double(double a, double b) { uint64_t x, y; __builtin_memcpy(&x, &a, 8); __builtin_memcpy(&y, &b, 8); return x == y; }

extern "C" void harness_inflatepaths64() {
  int64_t xs = nondet_i64(); ASSUME(xs != -1);
  double delta = nondet_double(), ml = nondet_double(), at = nondet_double();
  uint8_t jt = nondet_u8(), et = nondet_u8(); bool rev = nondet_bool();
  R.out_closed_x = nondet_i64();
  int64_t* in = mk_cpaths1(xs);
  int64_t* out;
#ifdef SINGLE_PATH
  out = InflatePath64(in + 2, delta, jt, et, ml, at, rev);
#else
  out = InflatePaths64(in, delta, jt, et, ml, at, rev);
#endif
  VA(R.n_off_add == 1 && R.n_off_exec == 1);
  VA(R.off_in_x == xs && R.off_jt == jt && R.off_et == et);
  VA(same_double(R.off_delta, delta) && same_double(R.off_miter, ml) && same_double(R.off_arc, at));
  VA(R.off_rev == rev);                          // reverse_solution must reach the offsetter as reverse_solution
  VA(R.off_pres == false);                       // the export API has no preserve_collinear argument: C++ default
  VA(out && out[1] == 1 && out[2] == 3 && out[4] == R.out_closed_x);
  verif_reach();
}

extern "C" void selftest_export() {
  Paths64 p(3);
  p[0].push_back(MKPT(1, 2)); p[0].push_back(MKPT(3, 4)); p[2].push_back(MKPT(5, 6));
  int64_t* arr = CreateCPathsFromPathsT(p);
  for (int i = 0; i < arr[0]; ++i) out_i64(arr[i]);
  Paths64 q = ConvertCPathsToPathsT(arr);
  out_i64(q.size()); out_i64(q[1][0].x);
}

// C17.b polytree layout: [array_len, top-level count, then per node: N, child count, N x (x,y[,z]), children...]; every write inside
// the allocation (CBMC bounds checks), array_len == number of elements written
extern "C" void harness_polytree_layout() {
  PolyTree64 tree;
  Path64 a, b, c;
  a.push_back(MKPT(nondet_i64(), nondet_i64())); a.push_back(MKPT(nondet_i64(), nondet_i64())); a.push_back(MKPT(nondet_i64(), nondet_i64()));
  b.push_back(MKPT(nondet_i64(), nondet_i64())); b.push_back(MKPT(nondet_i64(), nondet_i64())); b.push_back(MKPT(nondet_i64(), nondet_i64()));
  c.push_back(MKPT(nondet_i64(), nondet_i64())); c.push_back(MKPT(nondet_i64(), nondet_i64())); c.push_back(MKPT(nondet_i64(), nondet_i64())); c.push_back(MKPT(nondet_i64(), nondet_i64()));
  PolyPath64* na = tree.AddChild(a); na->AddChild(b); tree.AddChild(c);      // tree: { a { b }, c }
  int64_t* arr = CreateCPolyTree64(tree);
  const int64_t len = 2 + (2 + 3 * DIM) + (2 + 3 * DIM) + (2 + 4 * DIM);
  VA(arr != nullptr); ASSUME(arr != nullptr);
  VA(arr[0] == len); VA(arr[1] == 2);
  int64_t* v = arr + 2;
  VA(v[0] == 3 && v[1] == 1 && v[2] == a[0].x && v[3] == a[0].y && v[2 + 2 * DIM] == a[2].x && v[3 + 2 * DIM] == a[2].y);   // node a
  v += 2 + 3 * DIM;
  VA(v[0] == 3 && v[1] == 0 && v[2] == b[0].x && v[3] == b[0].y);                                                              // its child b
  v += 2 + 3 * DIM;
  VA(v[0] == 4 && v[1] == 0 && v[2] == c[0].x && v[3] == c[0].y && v[2 + 3 * DIM] == c[3].x && v[3 + 3 * DIM] == c[3].y);     // node c
#ifdef USINGZ
  VA(arr[2 + 2 + 2] == a[0].z);
#endif
  VA(v + 2 + 4 * DIM == arr + len);
  PolyTree64 empty; VA(CreateCPolyTree64(empty) == nullptr);
  verif_reach();
}

// C17.c RectClip64 / RectClipLines64 exports: rectangle and paths forwarded unchanged, result marshalled; empty rectangle / null paths rejected
struct RRec { int n; Rect64 rect; int64_t in_x; size_t in_n; int64_t out_x; };
static RRec RR;
extern "C" __attribute__((noinline)) void stub_rc_execute(Paths64* out, class RectClip64* self, const Paths64& paths) {
  new (out) Paths64(); RR.n++; RR.rect = self->rect_; RR.in_n = paths.size(); RR.in_x = paths.size() && paths[0].size() ? paths[0][0].x : -1;
  out->push_back(Path64{MKPT(RR.out_x, 7), MKPT(1, 2), MKPT(3, 4)});
}
extern "C" __attribute__((noinline)) void stub_rcl_execute(Paths64* out, class RectClipLines64* self, const Paths64& paths) { stub_rc_execute(out, self, paths); }
extern "C" void harness_rectclip64_export() {
  int64_t xs = nondet_i64(); ASSUME(xs != -1);
  CRect64 r; r.left = nondet_i64(); r.top = nondet_i64(); r.right = nondet_i64(); r.bottom = nondet_i64();
  RR.out_x = nondet_i64(); RR.n = 0;
  int64_t* in = mk_cpaths1(xs);
  bool lines = nondet_bool();
  int64_t* out = lines ? Clipper2Lib::RectClipLines64(r, in) : Clipper2Lib::RectClip64(r, in);
  bool empty = r.right <= r.left || r.bottom <= r.top;
  if (empty) { VA(out == nullptr); VA(RR.n == 0); }
  else {
    VA(RR.n == 1 && RR.in_n == 1 && RR.in_x == xs);
    VA(RR.rect.left == r.left && RR.rect.top == r.top && RR.rect.right == r.right && RR.rect.bottom == r.bottom);
    VA(out && out[1] == 1 && out[2] == 3 && out[4] == RR.out_x);
  }
  VA(Clipper2Lib::RectClip64(r, nullptr) == nullptr);
  verif_reach();
}

// C17.c RectClipD / RectClipLinesD: precision is forwarded on EVERY call (two calls with different precisions in one process)
static const double P10x[5] = {1e0, 1e1, 1e2, 1e3, 1e4};
extern "C" __attribute__((noinline)) double stub_pow(double base, double e) { int k = (int)e; VA(base == 10.0 && (double)k == e && k >= 0 && k <= 4); ASSUME(k >= 0 && k <= 4); return P10x[k]; }
static double* mk_cpathsd1(double x) { PathsD p(1); p[0].push_back(PointD(x, 0.25)); p[0].push_back(PointD(1.0, 1.0)); p[0].push_back(PointD(0.0, 1.0)); return CreateCPathsDFromPathsD(p); }
extern "C" void harness_rectclipd_export() {
  CRectD r; r.left = -10.0; r.top = -10.0; r.right = 10.0; r.bottom = 10.0;
  const double x = 1.2345;
  double* in = mk_cpathsd1(x);
  int p1 = nd_int(0, 4), p2 = nd_int(0, 4);
  bool lines = nondet_bool();
  RR.out_x = 12345;
  RR.n = 0; double* o1 = lines ? Clipper2Lib::RectClipLinesD(r, in, p1) : Clipper2Lib::RectClipD(r, in, p1);
  VA(RR.n == 1 && RR.in_x == (int64_t)std::round(x * P10x[p1]) && RR.rect.right == (int64_t)std::round(10.0 * P10x[p1]));
  VA(o1 && o1[4] == 12345.0 * (1 / P10x[p1]));
  RR.n = 0; double* o2 = lines ? Clipper2Lib::RectClipLinesD(r, in, p2) : Clipper2Lib::RectClipD(r, in, p2);
  VA(RR.n == 1 && RR.in_x == (int64_t)std::round(x * P10x[p2]) && RR.rect.right == (int64_t)std::round(10.0 * P10x[p2]));   // second call: its own precision
  VA(o2 && o2[4] == 12345.0 * (1 / P10x[p2]));
  VA(Clipper2Lib::RectClipD(r, in, nd_int(9, 100)) == nullptr);
  verif_reach();
}

// ---- C11/C17: argument validation of the other three exported Boolean functions (BFN: 1 BooleanOp_PolyTree64, 2 BooleanOpD,
// 3 BooleanOp_PolyTreeD): bad precision -> -5, bad clip type -> -4, bad fill rule -> -3, each before the engine is touched; every valid
// combination returns 0 after exactly one Execute with that clip type and fill rule, in tree mode for the tree functions.
#ifndef BFN
#define BFN 1
#endif
static const double P10w[17] = {1e-8, 1e-7, 1e-6, 1e-5, 1e-4, 1e-3, 1e-2, 1e-1, 1e0, 1e1, 1e2, 1e3, 1e4, 1e5, 1e6, 1e7, 1e8};
static const int ILOG10w[17] = {-27, -24, -20, -17, -14, -10, -7, -4, 0, 3, 6, 9, 13, 16, 19, 23, 26};
extern "C" __attribute__((noinline)) double stub_pow_w(double base, double e) {
  int k = (int)e; VA((double)k == e);
  if (base == 10.0) { VA(k >= -8 && k <= 8); ASSUME(k >= -8 && k <= 8); return P10w[k + 8]; }
  VA(base == 2.0 && k >= -40 && k <= 40); ASSUME(k >= -40 && k <= 40);
  return k >= 0 ? (double)(1LL << k) : 1.0 / (double)(1LL << -k);
}
extern "C" __attribute__((noinline)) int stub_ilogb_w(double x) { for (int i = 0; i < 17; ++i) if (x == P10w[i]) return ILOG10w[i]; VA(false); return 0; }
extern "C" __attribute__((noinline)) void stub_buildtree64(Clipper64* self, PolyPath64& tree, Paths64& open) { R.n_tree++; }
extern "C" __attribute__((noinline)) void stub_buildtreeD(ClipperD* self, PolyPathD& tree, PathsD& open) { R.n_tree++; }
extern "C" __attribute__((noinline)) void stub_buildpathsD(ClipperD* self, PathsD& closed, PathsD* open) { R.n_paths++; }
extern "C" void harness_booleanop_args() {
  uint8_t ct = nondet_u8(), fr = nondet_u8();
  bool pres = nondet_bool(), rev = nondet_bool();
  int prec = nd_int(-12, 12);
  int rc;
#if BFN == 1
  int64_t* subj = mk_cpaths1(5); int64_t* open = mk_cpaths1(6); int64_t* clip = mk_cpaths1(7);
  CPolyTree64 tree = nullptr; int64_t* sol_open = nullptr;
  rc = BooleanOp_PolyTree64(ct, fr, subj, open, clip, tree, sol_open, pres, rev);
  const bool bad_prec = false, want_tree = true;
#else
  double* subj = mk_cpathsd1(0.5); double* open = mk_cpathsd1(0.75); double* clip = mk_cpathsd1(0.25);
  double* sol_open = nullptr;
  const bool bad_prec = prec < -8 || prec > 8;
#if BFN == 2
  double* sol = nullptr;
  rc = BooleanOpD(ct, fr, subj, open, clip, sol, sol_open, prec, pres, rev);
  const bool want_tree = false;
#else
  CPolyTreeD tree = nullptr;
  rc = BooleanOp_PolyTreeD(ct, fr, subj, open, clip, tree, sol_open, prec, pres, rev);
  const bool want_tree = true;
#endif
#endif
  if (bad_prec) { VA(rc == -5); VA(R.n_exec == 0 && R.n_add == 0); }
  else if (ct > 4) { VA(rc == -4); VA(R.n_exec == 0 && R.n_add == 0); }
  else if (fr > 3) { VA(rc == -3); VA(R.n_exec == 0 && R.n_add == 0); }
  else {
    VA(rc == 0);
    VA(R.n_exec == 1 && R.ct == ct && R.fr == fr && R.pres == pres && R.rev == rev && R.polytree == want_tree && R.n_add == 3);
    VA(want_tree ? (R.n_tree == 1 && R.n_paths == 0) : (R.n_tree == 0));
  }
  verif_reach();
}
