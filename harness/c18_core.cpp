// C18: exact predicates of clipper.core.h (128-bit compiler branch).
#include "clipper2/clipper.core.h"
#include "harness.h"
using namespace Clipper2Lib;

static const int64_t M62 = (int64_t)1 << 62;
static inline int64_t c62() { return nd_range(-M62, M62); }
static inline int sgn128(__int128 v) { return v > 0 ? 1 : (v < 0 ? -1 : 0); }

// C18.a Multiply(a,b) is the exact 128-bit product, all 2^128 inputs
extern "C" void harness_multiply() {
  uint64_t a = nondet_u64(), b = nondet_u64();
  UInt128Struct r = Multiply(a, b);
  unsigned __int128 p = (unsigned __int128)a * b;
  VA(r.lo == (uint64_t)p && r.hi == (uint64_t)(p >> 64));
  verif_reach();
}

// three points whose coordinate differences (p2-p1, p3-p2) do not overflow int64 -- the property's only restriction
struct Tri { Point64 p1, p2, p3; int64_t a, b, c, d; };
static inline bool fits(__int128 v) { return v >= INT64_MIN && v <= INT64_MAX; }
static inline Tri nd_tri() {
  Tri t;
  t.p1 = Point64(nondet_i64(), nondet_i64()); t.p2 = Point64(nondet_i64(), nondet_i64()); t.p3 = Point64(nondet_i64(), nondet_i64());
  ASSUME(fits((__int128)t.p2.x - t.p1.x) && fits((__int128)t.p3.y - t.p2.y) && fits((__int128)t.p2.y - t.p1.y) && fits((__int128)t.p3.x - t.p2.x));
  // same 64-bit differences as the code under test (exact, by the assumption above)
  t.a = t.p2.x - t.p1.x; t.b = t.p3.y - t.p2.y; t.c = t.p2.y - t.p1.y; t.d = t.p3.x - t.p2.x;
  return t;
}

// C18.b CrossProductSign (128-bit branch) = sign of the exact cross product
extern "C" void harness_cps128() {
  Tri t = nd_tri();
  int s = CrossProductSign(t.p1, t.p2, t.p3);
  __int128 ab = (__int128)t.a * t.b, cd = (__int128)t.c * t.d;   // |a|,|b| <= 2^63 so |ab| <= 2^126: exact in 128 bits
  VA(s == (ab > cd) - (ab < cd));
  verif_reach();
}

// ProductsAreEqual / IsCollinear (128-bit branch), all int64 operands
extern "C" void harness_pae128() {
  int64_t a = nondet_i64(), b = nondet_i64(), c = nondet_i64(), d = nondet_i64();
  bool r = ProductsAreEqual(a, b, c, d);
  VA(r == ((__int128)a * b == (__int128)c * d));
  verif_reach();
}

extern "C" void harness_iscollinear128() {
  Tri t = nd_tri();
  bool r = IsCollinear(t.p1, t.p2, t.p3);
  VA(r == ((__int128)t.a * t.b == (__int128)t.c * t.d));
  VA(r == (CrossProductSign(t.p1, t.p2, t.p3) == 0));
  verif_reach();
}

// translator self-test: the repository's own TesthiCalculation / TestIsCollinear vectors
extern "C" void selftest_core() {
  out_i64(Multiply(0x51eaed81157de061ull, 0x3a271fb2745b6fe9ull).lo);
  out_i64(Multiply(0x51eaed81157de061ull, 0x3a271fb2745b6fe9ull).hi);
  out_i64(Multiply(0xf4cc4f3a8c2ab3d5ull, 0xe5a62b8f3c5e1a07ull).hi);
  out_i64(ProductsAreEqual(0x5000000000000000ll, 5, 0x4000000000000000ll + 0x1000000000000000ll, 5));
  out_i64(ProductsAreEqual(INT64_MIN, 2, INT64_MIN, 2));
  out_i64(CrossProductSign(Point64(0, 0), Point64(1000000007, 998244353), Point64(2000000014, 1996488707)));
  out_i64(CrossProductSign(Point64(-M62, -M62), Point64(M62, M62 - 1), Point64(M62, M62)));
  int64_t i = 9007199254740993;
  out_i64(IsCollinear(Point64(0, 0), Point64(i, i * 10), Point64(i * 10, i * 100)));
  out_i64(IsCollinear(Point64(0, 0), Point64(i, i * 10), Point64(i * 10, i * 100 + 1)));
}
