// C18.c PointInPolygon vs exact even-odd classification; C18.e Area vs exact shoelace. (CrossProduct/Area doubles lifted)
#include "clipper2/clipper.core.h"
#include "harness.h"
using namespace Clipper2Lib;
#ifndef LIM
#define LIM ((int64_t)1 << 25)
#endif
#ifndef NV
#define NV 3
#endif
static inline int64_t coord() { return nd_range(-LIM + 1, LIM - 1); }  // strict: differences stay below 2^26

// ---- exact memoisation of the orientation kernel -------------------------------------------------------------
// PointInPolygon only ever evaluates CrossProduct(*prev, *curr, pt) for cyclically adjacent polygon vertices.
// stub_cp replaces that call (DESIGN 1.4): it identifies the edge index from the argument addresses, asserts that the
// arguments really are (poly[i], poly[i+1 mod n], q), and returns the exact integer cross product of that edge,
// computed once per edge in the harness. This is not an abstraction of the value: for |coord| <= 2^25 the double
// CrossProduct equals the exact integer one (products <= 2^52, difference <= 2^53; obligation C18.c-crossproduct-exact),
// it only makes code and reference share one multiplier per edge instead of one per unrolled loop iteration.
static const Point64* g_base; static const Point64* g_q; static int64_t g_cp[NV];
static inline int64_t cross_exact(const Point64& a, const Point64& b, const Point64& c) {
  return (b.x - a.x) * (c.y - b.y) - (b.y - a.y) * (c.x - b.x);
}
extern "C" __attribute__((noinline)) double stub_cp(const Point64& a, const Point64& b, const Point64& c) {
  long i = &a - g_base;
  VA(i >= 0 && i < NV);
  VA(&b == g_base + (i + 1 == NV ? 0 : i + 1));
  VA(&c == g_q);
  // only the sign is used by PointInPolygon (d == 0, d < 0): returning +-1.0/0.0 avoids an int64->double conversion circuit per call
  return g_cp[i] > 0 ? 1.0 : (g_cp[i] < 0 ? -1.0 : 0.0);
}

// exact reference: 0 = on boundary, 1 = inside, 2 = outside (even-odd rule), integer arithmetic only
static int ref_pip(const Point64& q, const Point64* p, int n) {
  bool inside = false;
  for (int i = 0; i < n; ++i) {
    const Point64& a = p[i]; const Point64& b = p[(i + 1) % n];
    int64_t cr = g_cp[i];                       // (b-a) x (q-b) == (b-a) x (q-a)
    int64_t xlo = a.x < b.x ? a.x : b.x, xhi = a.x < b.x ? b.x : a.x, ylo = a.y < b.y ? a.y : b.y, yhi = a.y < b.y ? b.y : a.y;
    if (cr == 0 && q.x >= xlo && q.x <= xhi && q.y >= ylo && q.y <= yhi) return 0;
    if ((a.y <= q.y) != (b.y <= q.y)) {        // edge crosses the ray's level (half-open rule)
      bool up = b.y > a.y;
      if ((cr > 0) == up) inside = !inside;     // q strictly left of the edge
    }
  }
  return inside ? 1 : 2;
}

extern "C" void harness_pip() {
  Point64 pts[NV];
  for (int i = 0; i < NV; ++i) pts[i] = Point64(coord(), coord());
  Path64 poly(pts, pts + NV);
  Point64 q(coord(), coord());
  bool flat = true; for (int i = 1; i < NV; ++i) if (pts[i].y != pts[0].y) flat = false;
  ASSUME(!flat);                                 // "any polygon not contained in a single horizontal line"
  g_base = poly.data(); g_q = &q;
  for (int i = 0; i < NV; ++i) g_cp[i] = cross_exact(pts[i], pts[(i + 1) % NV], q);
  PointInPolygonResult r = PointInPolygon(q, poly);
  int rr = (r == PointInPolygonResult::IsOn) ? 0 : (r == PointInPolygonResult::IsInside ? 1 : 2);
  VA(rr == ref_pip(q, pts, NV));
  verif_reach();
}

// the double CrossProduct is the exact integer cross product for |coord| <= 2^25 (lifted: integer arithmetic with the
// side conditions |intermediate| <= 2^53 asserted)
extern "C" void harness_crossproduct_exact() {
  Point64 a(coord(), coord()), b(coord(), coord()), c(coord(), coord());
  double d = CrossProduct(a, b, c);
  double ref = (double)(b.x - a.x) * (double)(c.y - b.y) - (double)(b.y - a.y) * (double)(c.x - b.x);  // lifted: exact integers
  VA(d == ref);
  verif_reach();
}

#ifndef ALIM
#define ALIM ((int64_t)1 << 24)
#endif
// C18.e: 2*Area(path) == exact shoelace sum (|coord| <= 2^24 keeps every intermediate below 2^53)
extern "C" void harness_area() {
  Point64 pts[NV];
  for (int i = 0; i < NV; ++i) pts[i] = Point64(nd_range(-ALIM + 1, ALIM - 1), nd_range(-ALIM + 1, ALIM - 1));
  Path64 path(pts, pts + NV);
  double a = Area(path);
  // reference: sum over edges (prev -> cur) of (y_prev + y_cur) * (x_prev - x_cur), the trapezoid form of the shoelace sum
  double s = 0.0;
  for (int i = 0; i < NV; ++i) { const Point64& p = pts[(i + NV - 1) % NV]; const Point64& c = pts[i]; s = s + (double)(p.y + c.y) * (double)(p.x - c.x); }
  VA(a + a == s);   // Area returns s * 0.5
  verif_reach();
}

extern "C" void selftest_pip() {
  Path64 sq{Point64(0, 0), Point64(10, 0), Point64(10, 10), Point64(0, 10)};
  for (int x = -1; x <= 11; x += 3) for (int y = -1; y <= 11; y += 2) out_i64((int)PointInPolygon(Point64(x, y), sq));
  Path64 p{Point64(0, 0), Point64(10, 5), Point64(5, 10), Point64(-10, 0)};
  out_i64((int)PointInPolygon(Point64(-5, 0), p));
  out_f64(Area(sq)); out_f64(Area(p));
  const int64_t B = (int64_t)1 << 22;
  Path64 big{Point64(-B, -B), Point64(B, -B + 1), Point64((int64_t)3, B)};
  out_f64(Area(big)); out_i64((int)PointInPolygon(Point64(0, 0), big));
}
extern "C" void harness_pip_dbg() {
  Path64 poly{Point64((int64_t)33554432, (int64_t)15250908), Point64((int64_t)0, (int64_t)15250908), Point64((int64_t)0, (int64_t)15250912)};
  Point64 q((int64_t)385024, (int64_t)15250908);
  PointInPolygonResult r = PointInPolygon(q, poly);
  VA(r == PointInPolygonResult::IsOn);
  verif_reach();
}

// C01 (crossings on very flat edges are pulled back onto the edge by GetClosestPointOnSegment): the returned point is the projection
// of offPt onto the segment, clamped to its end points, up to the rounding of the result to integers. Exact integer oracle:
// with d = seg2 - seg1, t = (offPt - seg1).d, n = |d|^2:  t <= 0 -> seg1;  t >= n -> seg2;  else |(offPt - r).d| <= (|dx| + |dy|) / 2 (+1) and
// r inside the segment's bounding box.
#ifndef QLIM
#define QLIM 16
#endif
extern "C" void harness_closestpoint() {
  Point64 s1(nd_range(-QLIM, QLIM), nd_range(-QLIM, QLIM)), s2(nd_range(-QLIM, QLIM), nd_range(-QLIM, QLIM)), off(nd_range(-QLIM, QLIM), nd_range(-QLIM, QLIM));
  Point64 r = GetClosestPointOnSegment(off, s1, s2);
  int64_t dx = s2.x - s1.x, dy = s2.y - s1.y;
  if (dx == 0 && dy == 0) { VA(r == s1); verif_reach(); return; }
  int64_t t = (off.x - s1.x) * dx + (off.y - s1.y) * dy, n = dx * dx + dy * dy;
  if (t <= 0) VA(r == s1);
  else if (t >= n) VA(r == s2);
  else {
    int64_t e = (off.x - r.x) * dx + (off.y - r.y) * dy; if (e < 0) e = -e;
    int64_t adx = dx < 0 ? -dx : dx, ady = dy < 0 ? -dy : dy;
    VA(2 * e <= adx + ady + 2);
    VA(r.x >= (s1.x < s2.x ? s1.x : s2.x) && r.x <= (s1.x < s2.x ? s2.x : s1.x) && r.y >= (s1.y < s2.y ? s1.y : s2.y) && r.y <= (s1.y < s2.y ? s2.y : s1.y));
  }
  verif_reach();
}
