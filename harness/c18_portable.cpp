// C18.b portable branch: CrossProductSign / ProductsAreEqual compiled through the "#else" (64x64 Multiply) code path.
// The standard headers are included first; then UINTPTR_MAX is redefined so that clipper.core.h selects its portable branch.
#include <cstdint>
#include <vector>
#include <string>
#include <iostream>
#include <algorithm>
#include <numeric>
#include <cmath>
#undef UINTPTR_MAX
#define UINTPTR_MAX 0xffffffffu
#include "clipper2/clipper.core.h"
#include "harness.h"
using namespace Clipper2Lib;

// Multiply replaced by its proven contract (C18.a: exact 128-bit product)
extern "C" __attribute__((noinline)) UInt128Struct stub_multiply(uint64_t a, uint64_t b) {
  unsigned __int128 p = (unsigned __int128)a * b;
  return UInt128Struct{(uint64_t)p, (uint64_t)(p >> 64)};
}
static inline bool fits(__int128 v) { return v > INT64_MIN && v <= INT64_MAX; }   // INT64_MIN excluded: std::abs(INT64_MIN) is undefined in the portable branch

// reference built from the same unsigned products the portable code uses: a*b = sgn(a)sgn(b) * (|a|*|b|)  (lemma, proved separately below)
static inline int sg(int64_t x) { return (x > 0) - (x < 0); }
static inline uint64_t ab64(int64_t x) { return x < 0 ? (uint64_t)0 - (uint64_t)x : (uint64_t)x; }
static inline __int128 signed_prod(int64_t a, int64_t b) {       // exact a*b for |a|,|b| < 2^63, via the unsigned product
  UInt128Struct p = stub_multiply(ab64(a), ab64(b));
  __int128 m = (__int128)(((unsigned __int128)p.hi << 64) | p.lo);     // < 2^126
  return sg(a) * sg(b) < 0 ? -m : (sg(a) * sg(b) > 0 ? m : 0);
}
extern "C" void harness_signed_prod_lemma() {
  int64_t a = nondet_i64(), b = nondet_i64();
  ASSUME(a != INT64_MIN && b != INT64_MIN);
  VA(signed_prod(a, b) == (__int128)a * b);
  verif_reach();
}
extern "C" void harness_cps_portable() {
  Point64 p1(nondet_i64(), nondet_i64()), p2(nondet_i64(), nondet_i64()), p3(nondet_i64(), nondet_i64());
  ASSUME(fits((__int128)p2.x - p1.x) && fits((__int128)p3.y - p2.y) && fits((__int128)p2.y - p1.y) && fits((__int128)p3.x - p2.x));
  int64_t a = p2.x - p1.x, b = p3.y - p2.y, c = p2.y - p1.y, d = p3.x - p2.x;
  int s = CrossProductSign(p1, p2, p3);
  __int128 ab = signed_prod(a, b), cd = signed_prod(c, d);
  VA(s == (ab > cd) - (ab < cd));
  verif_reach();
}
extern "C" void harness_pae_portable() {
  int64_t a = nondet_i64(), b = nondet_i64(), c = nondet_i64(), d = nondet_i64();
  ASSUME(a != INT64_MIN && b != INT64_MIN && c != INT64_MIN && d != INT64_MIN);
  bool r = ProductsAreEqual(a, b, c, d);
  VA(r == (signed_prod(a, b) == signed_prod(c, d)));
  verif_reach();
}
