// C18.d GetSegmentIntersectPt: parallelism must be reported exactly (|coordinates| <= 2^40).
#include "clipper2/clipper.core.h"
#include "harness.h"
using namespace Clipper2Lib;
static const int64_t M40 = (int64_t)1 << 40;
static inline int64_t c40() { return nd_range(-M40, M40); }

// Known finding (recorded in known_findings.txt): when both direction products exceed 2^53 they can round to the same double,
// det == 0.0, and two properly crossing segments are reported parallel. VKNOWN marks the assertion whose failure is that class.
extern "C" void harness_segpt_parallel() {
  Point64 a(c40(), c40()), b(c40(), c40()), c(c40(), c40()), d(c40(), c40());
  Point64 ip;
  bool ok = GetSegmentIntersectPt(a, b, c, d, ip);
  __int128 dx1 = b.x - a.x, dy1 = b.y - a.y, dx2 = d.x - c.x, dy2 = d.y - c.y;
  __int128 D = dy1 * dx2 - dy2 * dx1;           // exact determinant of the two direction vectors
  // outside the recorded class (all four direction components below 2^26, so both products are exact doubles) nothing is known to fail
  const int64_t S = (int64_t)1 << 26;
  bool small = dx1 > -S && dx1 < S && dy1 > -S && dy1 < S && dx2 > -S && dx2 < S && dy2 > -S && dy2 < S;
  if (!small) VKNOWN(!(D != 0 && !ok));           // "reported parallel although the directions are not" - the recorded class
  verif_reach();
}
