// C18.d GetSegmentIntersectPt: parallelism must be reported exactly (|coordinates| <= 2^40).
#include "clipper2/clipper.core.h"
#include "harness.h"
using namespace Clipper2Lib;
static const int64_t M40 = (int64_t)1 << 40;
static inline int64_t c40() { return nd_range(-M40, M40); }

// Known finding (recorded in known_findings.txt): when both direction products exceed 2^53 they can round to the same double,
// det == 0.0, and two properly crossing segments are reported parallel. VKNOWN marks the assertion whose failure is that class.
extern "C" void harness_segpt_parallel() {
  Point64 a(c40(), c40()), b(c40(), c40()), c(c40(), c40()), d(c40(), c40());
  Point64 ip;
  bool ok = GetSegmentIntersectPt(a, b, c, d, ip);
  __int128 dx1 = b.x - a.x, dy1 = b.y - a.y, dx2 = d.x - c.x, dy2 = d.y - c.y;
  __int128 D = dy1 * dx2 - dy2 * dx1;           // exact determinant of the two direction vectors
  // outside the recorded class (all four direction components below 2^26, so both products are exact doubles) nothing is known to fail
  const int64_t S = (int64_t)1 << 26;
  bool small = dx1 > -S && dx1 < S && dy1 > -S && dy1 < S && dx2 > -S && dx2 < S && dy2 > -S && dy2 < S;
  if (!small) VKNOWN(!(D != 0 && !ok));           // "reported parallel although the directions are not" - the recorded class
  verif_reach();
}

// C03 (bounding box clause) / C18: whatever two non-parallel lines it is given - crossing inside the segments or not - the point
// GetSegmentIntersectPt returns lies within the bounding box of the FIRST segment (the parameter is clamped to [0,1] on it), so a
// solution vertex computed from it cannot leave the bounding box of the inputs.
#ifndef SLIM
#define SLIM 3
#endif
extern "C" void harness_segpt_within_first_segment() {
  Point64 a(nd_range(-SLIM, SLIM), nd_range(-SLIM, SLIM)), b(nd_range(-SLIM, SLIM), nd_range(-SLIM, SLIM));
  Point64 c(nd_range(-SLIM, SLIM), nd_range(-SLIM, SLIM)), d(nd_range(-SLIM, SLIM), nd_range(-SLIM, SLIM));
  Point64 ip;
  bool ok = GetSegmentIntersectPt(a, b, c, d, ip);
  int64_t det = (b.y - a.y) * (d.x - c.x) - (b.x - a.x) * (d.y - c.y);
  VA(ok == (det != 0));                                    // small integers: the determinant is exact in double
  if (ok) {
    VA(ip.x >= (a.x < b.x ? a.x : b.x) && ip.x <= (a.x < b.x ? b.x : a.x));
    VA(ip.y >= (a.y < b.y ? a.y : b.y) && ip.y <= (a.y < b.y ? b.y : a.y));
  }
  verif_reach();
}

// C09/C10: the orientation kernel used by GetSegmentIntersection (rectangle clipping, |coordinates| <= 2^40) forms its products in
// double: no signed 64-bit overflow for any points in that range (every nsw instruction of the real code is asserted)
extern "C" void harness_crossproduct_no_overflow_40() {
  Point64 p1(c40(), c40()), p2(c40(), c40()), p3(c40(), c40());
  double cp = CrossProduct(p1, p2, p3); (void)cp;
  double dp = DotProduct(p1, p2, p3); (void)dp;
  verif_reach();
}

// C18.e / C10: Area(Path64) forms its shoelace products in double: no signed 64-bit overflow for |coordinates| <= 2^40
extern "C" void harness_area_no_overflow_40() {
  Path64 p; p.reserve(4);
  for (int i = 0; i < 4; ++i) p.push_back(Point64(c40(), c40()));
  double a = Area(p); (void)a;
  bool pos = IsPositive(p); (void)pos;
  verif_reach();
}
