// C19: detail::Minkowski builds exactly the parallelograms (pattern edge x path edge), each normalised to non-negative orientation.
#include "src/clipper.engine.cpp"
#include "clipper2/clipper.minkowski.h"
#include "harness.h"
using namespace Clipper2Lib;
#ifndef PL
#define PL 2
#endif
#ifndef TL
#define TL 2
#endif
#ifndef CLOSED
#define CLOSED 1
#endif
#define NQ ((TL - (CLOSED ? 0 : 1)) * PL)
static const int64_t LIM = (int64_t)1 << 40;

static __int128 area2(const Point64* p, int n) { __int128 s = 0; for (int i = 0; i < n; ++i) { const Point64& a = p[i]; const Point64& b = p[(i + 1) % n]; s += (__int128)a.x * b.y - (__int128)b.x * a.y; } return s; }

// IsPositive(quad) replaced by a recorder that returns an ARBITRARY verdict: the obligation is that the quad handed to it is
// the forward parallelogram and that it is reversed exactly when the verdict is "not positive" (whatever the verdict is)
static int g_calls; static bool g_pos[16]; static Point64 g_quad[16][4];
extern "C" __attribute__((noinline)) bool stub_ispositive(const Path64& p) {
  VA(p.size() == 4); ASSUME(p.size() == 4);
  int k = g_calls++; VA(k < 16); ASSUME(k < 16);
  for (int i = 0; i < 4; ++i) g_quad[k][i] = p[i];
  g_pos[k] = nondet_bool();
  return g_pos[k];
}
static bool quad_eq(const Path64& q, const Point64& a, const Point64& b, const Point64& c, const Point64& d) { return q[0] == a && q[1] == b && q[2] == c && q[3] == d; }

extern "C" void harness_minkowski() {
  Point64 pat[PL], pth[TL];
  for (int i = 0; i < PL; ++i) pat[i] = Point64(nd_range(-LIM, LIM), nd_range(-LIM, LIM));
  for (int i = 0; i < TL; ++i) pth[i] = Point64(nd_range(-LIM, LIM), nd_range(-LIM, LIM));
  Path64 pattern(pat, pat + PL), path(pth, pth + TL);
  bool isSum = nondet_bool();
  Paths64 res = detail::Minkowski(pattern, path, isSum, CLOSED);
  VA(res.size() == (size_t)NQ); ASSUME(res.size() == (size_t)NQ);
  // expected: for every path edge (g -> i) and pattern edge (h -> j): (a_g+-b_h, a_i+-b_h, a_i+-b_j, a_g+-b_j)
  Point64 t[TL][PL];
  for (int i = 0; i < TL; ++i) for (int j = 0; j < PL; ++j) t[i][j] = isSum ? Point64(pth[i].x + pat[j].x, pth[i].y + pat[j].y) : Point64(pth[i].x - pat[j].x, pth[i].y - pat[j].y);
  int k = 0;
  for (int i = (CLOSED ? 0 : 1); i < TL; ++i) {
    int g = (i + TL - 1) % TL;
    for (int j = 0; j < PL; ++j) {
      int h = (j + PL - 1) % PL;
      const Path64& q = res[k];
      VA(q.size() == 4); ASSUME(q.size() == 4);
      bool fwd = quad_eq(q, t[g][h], t[i][h], t[i][j], t[g][j]);
      bool rev = quad_eq(q, t[g][j], t[i][j], t[i][h], t[g][h]);
      VA(fwd || rev);
      if (g_calls == NQ) {
        // orientation normalisation: the quad handed to IsPositive is the forward one; it is reversed iff not positive
        VA(quad_eq(Path64(g_quad[k], g_quad[k] + 4), t[g][h], t[i][h], t[i][j], t[g][j]));
        VA(g_pos[k] ? fwd : rev);
      } else {
        Point64 qq[4] = {q[0], q[1], q[2], q[3]};
        VA(area2(qq, 4) >= 0);
      }
      ++k;
    }
  }
  verif_reach();
}

// empty pattern or path gives an empty result (and MinkowskiSum/Diff forward to the NonZero union)
extern "C" void harness_minkowski_empty() {
  Path64 empty, one; one.push_back(Point64(nd_range(-LIM, LIM), nd_range(-LIM, LIM))); one.push_back(Point64((int64_t)1, (int64_t)2));
  bool isSum = nondet_bool(), closed = nondet_bool();
  VA(detail::Minkowski(empty, one, isSum, closed).empty());
  VA(detail::Minkowski(one, empty, isSum, closed).empty());
  Path64 sq; sq.push_back(Point64((int64_t)0, (int64_t)0)); sq.push_back(Point64((int64_t)1, (int64_t)0)); sq.push_back(Point64((int64_t)1, (int64_t)1)); sq.push_back(Point64((int64_t)0, (int64_t)1));
  (void)IsPositive(sq);   // keeps the replaced symbol instantiated
  verif_reach();
}

// MinkowskiSum/Diff = NonZero union over exactly those quads (stub-and-observe on the clipper)
struct Rec { int n_add, n_exec; size_t add_n; int add_type; bool add_open; int ct, fr; int64_t first_x; bool stale; };
static Rec R;
extern "C" __attribute__((noinline)) void stub_addpaths(ClipperBase* self, const Paths64& paths, PathType pt, bool is_open) {
  // the clipper handed the quads must hold nothing from an earlier call; the marker stands for the vertices the real AddPaths would keep
  if (!self->vertex_lists_.empty() || !self->minima_list_.empty()) R.stale = true;
  self->vertex_lists_.push_back(nullptr);
  R.n_add++; R.add_n = paths.size(); R.add_type = (int)pt; R.add_open = is_open; R.first_x = paths.size() && paths[0].size() ? paths[0][0].x : -1;
}
extern "C" __attribute__((noinline)) bool stub_execint(ClipperBase* self, ClipType ct, FillRule fr, bool use_polytrees) { R.ct = (int)ct; R.fr = (int)fr; R.n_exec++; return true; }
extern "C" __attribute__((noinline)) void stub_buildpaths64(Clipper64* self, Paths64& closed, Paths64* open) { closed.clear(); Path64 p1; p1.push_back(Point64((int64_t)7, (int64_t)7)); closed.push_back(p1); }
extern "C" __attribute__((noinline)) void stub_cleanup(ClipperBase* self) {}
extern "C" void harness_minkowski_union() {
  Point64 pat[2], pth[2];
  for (int i = 0; i < 2; ++i) { pat[i] = Point64(nd_range(-LIM, LIM), nd_range(-LIM, LIM)); pth[i] = Point64(nd_range(-LIM, LIM), nd_range(-LIM, LIM)); }
  Path64 pattern(pat, pat + 2), path(pth, pth + 2);
  bool isSum = nondet_bool();
  Paths64 r = isSum ? MinkowskiSum(pattern, path, true) : MinkowskiDiff(pattern, path, true);
  VA(R.n_add == 1 && R.n_exec == 1 && R.add_n == 4 && R.add_type == (int)PathType::Subject && !R.add_open);
  VA(R.ct == (int)ClipType::Union && R.fr == (int)FillRule::NonZero);
  VA(r.size() == 1 && r[0].size() == 1 && r[0][0].x == 7);
  // a second call on the same thread starts from a clipper that holds nothing of the first
  Paths64 r2 = nondet_bool() ? MinkowskiSum(path, pattern, true) : MinkowskiDiff(pattern, path, true);
  VA(!R.stale && R.n_add == 2 && R.n_exec == 2 && R.add_n == 4);
  VA(r2.size() == 1 && r2[0].size() == 1 && r2[0][0].x == 7);
  verif_reach();
}
