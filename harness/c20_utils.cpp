// C20: path utilities. SimplifyPath / RamerDouglasPeucker with the perpendicular-distance kernel abstracted by a symbolic
// table d(i; a, b) >= 0 (symmetric in a, b) shared with the oracle; TrimCollinear, StripDuplicates, GetBounds, TranslatePath concretely.
#include "clipper2/clipper.h"
#include "harness.h"
using namespace Clipper2Lib;
#ifndef NPTS
#define NPTS 5
#endif

static const Point64* g_base;
static double D[NPTS][NPTS][NPTS];     // D[i][a][b], a < b : squared distance of vertex i from the line through vertices a and b
static inline double nd_dist() { double d = nondet_double(); ASSUME(d >= 0.0 && d <= 1e30); return d; }
static void fill_table() { for (int i = 0; i < NPTS; ++i) for (int a = 0; a < NPTS; ++a) for (int b = a + 1; b < NPTS; ++b) D[i][a][b] = nd_dist(); }
static inline double dist(int i, int a, int b) { return a < b ? D[i][a][b] : D[i][b][a]; }
static inline long idx_of_x(int64_t x) { for (long k = 0; k < NPTS; ++k) if (x == 10 * k) return k; return -1; }   // comparison chain, no division
extern "C" __attribute__((noinline)) double stub_perp(const Point64& pt, const Point64& l1, const Point64& l2) {
  // vertices are identified by value (RDP passes its path by value, so addresses differ): mk_path() puts vertex i at x = 10*i, y = i*i
  long i = idx_of_x(pt.x), a = idx_of_x(l1.x), b = idx_of_x(l2.x);
  VA(i >= 0 && i < NPTS && a >= 0 && a < NPTS && b >= 0 && b < NPTS);
  VA(pt.x == 10 * i && pt.y == i * i && l1.x == 10 * a && l1.y == a * a && l2.x == 10 * b && l2.y == b * b);
  ASSUME(i >= 0 && i < NPTS && a >= 0 && a < NPTS && b >= 0 && b < NPTS);
  if (a == b || i == a || i == b) return 0.0;   // what the real kernel returns for a degenerate line / a point on the line
  return dist((int)i, (int)a, (int)b);
}
// vector append without the reallocation path (the library reserves len elements before appending; the stub asserts capacity)
extern "C" __attribute__((noinline)) Point64* stub_path_append_c(Path64* v, const Point64& p) {
  VA(v->_M_impl._M_finish != v->_M_impl._M_end_of_storage); ASSUME(v->_M_impl._M_finish != v->_M_impl._M_end_of_storage);
  Point64* f = v->_M_impl._M_finish; *f = p; v->_M_impl._M_finish = f + 1; return f;
}
static Path64 mk_path() { Path64 p; p.reserve(NPTS); for (int i = 0; i < NPTS; ++i) p.push_back(Point64((int64_t)(i * 10), (int64_t)(i * i))); return p; }
static inline int index_of(const Point64& q) { for (int k = 0; k < NPTS; ++k) if (q.x == 10 * k) return k; return -1; }

// C20.c SimplifyPath
extern "C" void harness_simplify() {
  Path64 path = mk_path(); g_base = path.data();
  fill_table();
  double eps = nondet_double(); ASSUME(eps >= 0.0 && eps <= 1e10);
  bool closed = nondet_bool();
  Path64 r = SimplifyPath(path, eps, closed);
  const double e2 = eps * eps;
  // subsequence, in order
  int m = (int)r.size(); VA(m >= 2 && m <= NPTS);
  int idx[NPTS];
  for (int k = 0; k < NPTS; ++k) { if (k >= m) break; idx[k] = index_of(r[k]); VA(r[k] == path[idx[k]]); if (k) VA(idx[k] > idx[k - 1]); }
  if (!closed) { VA(idx[0] == 0); VA(idx[m - 1] == NPTS - 1); }
  // no removable vertex left
  if (m >= 3) {
    for (int k = 0; k < NPTS; ++k) {
      if (k >= m) break;
      if (!closed && (k == 0 || k == m - 1)) continue;
      int p = idx[(k + m - 1) % m], n = idx[(k + 1) % m];
      VA(dist(idx[k], p, n) > e2);
    }
  }
  verif_reach();
}

// C20.b RamerDouglasPeucker
extern "C" void harness_rdp() {
  Path64 path = mk_path(); g_base = path.data();
  fill_table();
  double eps = nondet_double(); ASSUME(eps >= 0.0 && eps <= 1e10);
  Path64 r = RamerDouglasPeucker(path, eps);
  const double e2 = eps * eps;
  int m = (int)r.size(); VA(m >= 2 && m <= NPTS);
  int idx[NPTS];
  for (int k = 0; k < NPTS; ++k) { if (k >= m) break; idx[k] = index_of(r[k]); VA(r[k] == path[idx[k]]); if (k) VA(idx[k] > idx[k - 1]); }
  VA(idx[0] == 0); VA(idx[m - 1] == NPTS - 1);
  // every removed vertex is within eps of the line through its two surviving neighbours
  for (int k = 0; k + 1 < NPTS; ++k) {
    if (k + 1 >= m) break;
    for (int i = 1; i < NPTS - 1; ++i) if (i > idx[k] && i < idx[k + 1]) VA(dist(i, idx[k], idx[k + 1]) <= e2);
  }
  verif_reach();
}

#ifndef TN
#define TN 4
#endif
#ifndef TLIM
#define TLIM 3
#endif
// ---- concrete (non-abstracted) utilities -----------------------------------------------------------------------
// coordinates are on a tiny grid in the TrimCollinear harness: exact 32-bit arithmetic (small multipliers for the solver)
static inline int32_t cross3(const Point64& a, const Point64& b, const Point64& c) { return (int32_t)(b.x - a.x) * (int32_t)(c.y - b.y) - (int32_t)(b.y - a.y) * (int32_t)(c.x - b.x); }
// IsCollinear replaced by its exact meaning (proved for all inputs in C18.b), evaluated in 32 bits on the grid
extern "C" __attribute__((noinline)) bool stub_iscol_small(const Point64& a, const Point64& b, const Point64& c) {
  VA(a.x >= 0 && a.x <= TLIM && a.y >= 0 && a.y <= TLIM && b.x >= 0 && b.x <= TLIM && b.y >= 0 && b.y <= TLIM && c.x >= 0 && c.x <= TLIM && c.y >= 0 && c.y <= TLIM);
  return cross3(a, b, c) == 0;
}
static inline int32_t dot3(const Point64& a, const Point64& b, const Point64& c) { return (int32_t)(b.x - a.x) * (int32_t)(c.x - b.x) + (int32_t)(b.y - a.y) * (int32_t)(c.y - b.y); }
static int32_t area2(const Point64* p, int n) { int32_t s = 0; for (int i = 0; i < n; ++i) { const Point64& a = p[i]; const Point64& b = p[(i + 1) % n]; s += (int32_t)a.x * (int32_t)b.y - (int32_t)b.x * (int32_t)a.y; } return s; }

// C20.a TrimCollinear on closed paths: subsequence (cyclic order), area preserved, and for inputs without repeated points or
// 180-degree reversals: no three consecutive collinear, idempotent
extern "C" void harness_trimcollinear_closed() {
  Point64 pts[TN]; Path64 path;
  for (int i = 0; i < TN; ++i) { pts[i] = Point64(nd_range(0, TLIM), nd_range(0, TLIM)); }
  path.assign(pts, pts + TN);
  Path64 r = TrimCollinear(path, false);
  int m = (int)r.size(); VA(m == 0 || (m >= 3 && m <= TN));
  Point64 rp[TN];
  for (int k = 0; k < TN; ++k) if (k < m) rp[k] = r[k];
  // signed area preserved (an empty result must have had zero area)
  VA(area2(pts, TN) == (m ? area2(rp, m) : 0));
  bool clean = true;   // no repeated consecutive points, no 180-degree reversals (cyclically)
  for (int i = 0; i < TN; ++i) {
    const Point64& a = pts[(i + TN - 1) % TN]; const Point64& b = pts[i]; const Point64& c = pts[(i + 1) % TN];
    if (a == b) clean = false;
    if (cross3(a, b, c) == 0 && dot3(a, b, c) < 0) clean = false;
  }
  if (clean && m) {
    for (int k = 0; k < TN; ++k) { if (k >= m) break; VA(cross3(rp[(k + m - 1) % m], rp[k], rp[(k + 1) % m]) != 0); }
    // idempotence, on a copy of concrete size (a vector of symbolic size would make the allocation symbolic)
    if (m == 3) { Path64 q(rp, rp + 3); Path64 r2 = TrimCollinear(q, false); VA(r2.size() == 3 && r2[0] == rp[0] && r2[1] == rp[1] && r2[2] == rp[2]); }
#if TN >= 4
    if (m == 4) { Path64 q(rp, rp + 4); Path64 r2 = TrimCollinear(q, false); VA(r2.size() == 4 && r2[0] == rp[0] && r2[1] == rp[1] && r2[2] == rp[2] && r2[3] == rp[3]); }
#endif
  }
  verif_reach();
}

// C20.d defining equations
extern "C" void harness_stripdup() {
  Point64 pts[4]; Path64 path;
  for (int i = 0; i < 4; ++i) pts[i] = Point64(nd_range(0, 1), nd_range(0, 1));
  path.assign(pts, pts + 4);
  bool closed = nondet_bool();
  Path64 r = path; StripDuplicates(r, closed);
  int m = (int)r.size(); VA(m >= 1 && m <= 4);
  for (int k = 0; k + 1 < 4; ++k) { if (k + 1 >= m) break; VA(r[k] != r[k + 1]); }
  if (closed && m > 1) VA(r[m - 1] != r[0]);
  VA(r[0] == pts[0]);
  verif_reach();
}
extern "C" void harness_getbounds64() {
  Path64 path; int64_t x[3], y[3];
  for (int i = 0; i < 3; ++i) { x[i] = nondet_i64(); y[i] = nondet_i64(); path.push_back(Point64(x[i], y[i])); }
  Rect64 r = GetBounds(path);
  for (int i = 0; i < 3; ++i) VA(r.left <= x[i] && r.right >= x[i] && r.top <= y[i] && r.bottom >= y[i]);
  VA((r.left == x[0] || r.left == x[1] || r.left == x[2]) && (r.right == x[0] || r.right == x[1] || r.right == x[2]));
  VA((r.top == y[0] || r.top == y[1] || r.top == y[2]) && (r.bottom == y[0] || r.bottom == y[1] || r.bottom == y[2]));
  Path64 empty; Rect64 e = GetBounds(empty);
  VA(e.left == INT64_MAX && e.top == INT64_MAX && e.right == INT64_MIN && e.bottom == INT64_MIN);
  verif_reach();
}
extern "C" void harness_translate() {
  Path64 path; int64_t x[2], y[2];
  const int64_t M = (int64_t)1 << 61;
  for (int i = 0; i < 2; ++i) { x[i] = nd_range(-M, M); y[i] = nd_range(-M, M); path.push_back(Point64(x[i], y[i])); }
  int64_t dx = nd_range(-M, M), dy = nd_range(-M, M);
  Path64 r = TranslatePath(path, dx, dy);
  VA(r.size() == 2 && r[0].x == x[0] + dx && r[0].y == y[0] + dy && r[1].x == x[1] + dx && r[1].y == y[1] + dy);
  verif_reach();
}

extern "C" void selftest_utils() {
  Path64 p{Point64(0, 0), Point64(5, 0), Point64(10, 0), Point64(10, 10), Point64(5, 10), Point64(0, 10)};
  Path64 t = TrimCollinear(p, false); out_i64(t.size()); for (auto& q : t) { out_i64(q.x); out_i64(q.y); }
  Path64 z{Point64(0, 0), Point64(100, 1), Point64(200, 0), Point64(300, 50), Point64(400, 0), Point64(500, 0)};
  Path64 s = SimplifyPath(z, 2.0, false); out_i64(s.size()); for (auto& q : s) out_i64(q.x);
  Path64 d = RamerDouglasPeucker(z, 2.0); out_i64(d.size()); for (auto& q : d) out_i64(q.x);
}

// C20: StripNearEqual - the result starts with the first point, is an in-order subsequence, has no two consecutive points closer
// than the tolerance, and (closed) does not end within the tolerance of its first point unless only that point is left
#ifndef SNN
#define SNN 5
#endif
#ifndef SNR
#define SNR 4
#endif
extern "C" void harness_stripnearequal() {
  Point64 pts[SNN]; Path64 path;
  for (int i = 0; i < SNN; ++i) pts[i] = Point64(nd_range(-SNR, SNR), nd_range(-SNR, SNR));
  path.assign(pts, pts + SNN);
  double tol = nondet_double(); ASSUME(tol >= 0.0 && tol <= 64.0);
  bool closed = nondet_bool();
  Path64 r = StripNearEqual(path, tol, closed);
  int m = (int)r.size(); VA(m >= 1 && m <= SNN); ASSUME(m >= 1 && m <= SNN);
  Point64 rp[SNN]; for (int k = 0; k < SNN; ++k) if (k < m) rp[k] = r[k];
  VA(rp[0] == pts[0]);
  int j = 0;                                   // in-order subsequence
  for (int k = 0; k < SNN; ++k) { if (k >= m) break; while (j < SNN && !(pts[j] == rp[k])) ++j; VA(j < SNN); ++j; }
  for (int k = 0; k + 1 < SNN; ++k) { if (k + 1 >= m) break; int64_t dx = rp[k].x - rp[k + 1].x, dy = rp[k].y - rp[k + 1].y; VA(!((double)(dx * dx + dy * dy) < tol)); }
  if (closed && m > 1) { int64_t dx = rp[m - 1].x - rp[0].x, dy = rp[m - 1].y - rp[0].y; VA(!((double)(dx * dx + dy * dy) < tol)); }
  verif_reach();
}
