// Plain (non-USINGZ) build: prints the coordinate sums of the solutions of the C15 geometries; the USINGZ harness must agree.
#include "src/clipper.engine.cpp"
#include "harness.h"
using namespace Clipper2Lib;
#ifdef USINGZ
#error "plain build expected"
#endif
static void run(const Paths64& subj, const Paths64& clip, ClipType ct = ClipType::Intersection) {
  Clipper64 c; c.AddSubject(subj); c.AddClip(clip); Paths64 sol; c.Execute(ct, FillRule::NonZero, sol);
  int64_t sx = 0, sy = 0, n = 0; for (auto& p : sol) for (auto& q : p) { sx += q.x; sy += q.y; ++n; }
  out_i64(sx); out_i64(sy); out_i64(n);
}
extern "C" void expect_geom0() {
  Paths64 subj(1), clip(1);
  subj[0].push_back(Point64((int64_t)0, (int64_t)0)); subj[0].push_back(Point64((int64_t)100, (int64_t)10)); subj[0].push_back(Point64((int64_t)20, (int64_t)90));
  clip[0].push_back(Point64((int64_t)10, (int64_t)50)); clip[0].push_back(Point64((int64_t)90, (int64_t)-5)); clip[0].push_back(Point64((int64_t)80, (int64_t)85));
  run(subj, clip);
}
extern "C" void expect_geom1() {
  Paths64 subj(1), clip(1);
  subj[0].push_back(Point64((int64_t)0, (int64_t)0)); subj[0].push_back(Point64((int64_t)100, (int64_t)0)); subj[0].push_back(Point64((int64_t)100, (int64_t)100)); subj[0].push_back(Point64((int64_t)0, (int64_t)100));
  clip[0].push_back(Point64((int64_t)10, (int64_t)10)); clip[0].push_back(Point64((int64_t)60, (int64_t)12)); clip[0].push_back(Point64((int64_t)50, (int64_t)70));
  run(subj, clip);
}
extern "C" void expect_geom2() {
  Paths64 subj(2), clip(1);
  subj[0].push_back(Point64((int64_t)0, (int64_t)0)); subj[0].push_back(Point64((int64_t)100, (int64_t)10)); subj[0].push_back(Point64((int64_t)20, (int64_t)90));
  subj[1].push_back(Point64((int64_t)10, (int64_t)50)); subj[1].push_back(Point64((int64_t)90, (int64_t)-5)); subj[1].push_back(Point64((int64_t)80, (int64_t)85));
  clip[0].push_back(Point64((int64_t)200, (int64_t)200)); clip[0].push_back(Point64((int64_t)220, (int64_t)200)); clip[0].push_back(Point64((int64_t)210, (int64_t)220));
  run(subj, clip, ClipType::Difference);
}
extern "C" void expect_geom3() {
  Paths64 subj(1), clip(1);
  subj[0].push_back(Point64((int64_t)26, (int64_t)3)); subj[0].push_back(Point64((int64_t)1, (int64_t)16)); subj[0].push_back(Point64((int64_t)29, (int64_t)4));
  clip[0].push_back(Point64((int64_t)16, (int64_t)9)); clip[0].push_back(Point64((int64_t)20, (int64_t)21)); clip[0].push_back(Point64((int64_t)14, (int64_t)1));
  run(subj, clip, ClipType::Difference);
}
extern "C" void expect_geom4() {
  Paths64 subj(1), clip(1);
  const int64_t s[5][2] = {{29, 37}, {17, 26}, {18, 46}, {23, 6}, {13, 42}}, c[5][2] = {{43, 14}, {21, 38}, {15, 2}, {50, 36}, {4, 17}};
  for (int i = 0; i < 5; ++i) { subj[0].push_back(Point64(s[i][0], s[i][1])); clip[0].push_back(Point64(c[i][0], c[i][1])); }
  run(subj, clip);
}
