// Engine unit harnesses: output clean-up (C03), ownership (C04), comparators and input representation (C13), degenerate input (C10).
#include "src/clipper.engine.cpp"
#include "harness.h"
using namespace Clipper2Lib;

static inline __int128 cross3(const Point64& a, const Point64& b, const Point64& c) { return (__int128)(b.x - a.x) * (c.y - b.y) - (__int128)(b.y - a.y) * (c.x - b.x); }
static inline __int128 dot3(const Point64& a, const Point64& b, const Point64& c) { return (__int128)(b.x - a.x) * (c.x - b.x) + (__int128)(b.y - a.y) * (c.y - b.y); }

#ifndef RN
#define RN 4
#endif
#ifndef G
#define G 3
#endif
extern "C" __attribute__((noinline)) void stub_fixself(ClipperBase* self, OutRec* outrec) {}

// ---- exact memoisation of the collinearity / dot-product kernels over the RN ring nodes (DESIGN 1.4) -----------------------
// CleanCollinear evaluates IsCollinear / DotProduct only on points stored in ring nodes. The stubs identify the three nodes by
// address and return the exact value precomputed once per triple in the harness (IsCollinear itself is proved exact for all
// inputs in C18.b; DotProduct is exact in doubles at these magnitudes): code and oracle share one small multiplier per triple.
static OutPt* g_ops[RN]; static bool g_col[RN][RN][RN]; static int g_dotsign[RN][RN][RN];
static int node_of(const Point64& p) { for (int i = 0; i < RN; ++i) if (&p == &g_ops[i]->pt) return i; return -1; }
extern "C" __attribute__((noinline)) bool stub_iscollinear(const Point64& a, const Point64& b, const Point64& c) {
  int i = node_of(a), j = node_of(b), k = node_of(c);
  VA(i >= 0 && j >= 0 && k >= 0); ASSUME(i >= 0 && j >= 0 && k >= 0);
  return g_col[i][j][k];
}
extern "C" __attribute__((noinline)) double stub_dotproduct(const Point64& a, const Point64& b, const Point64& c) {
  int i = node_of(a), j = node_of(b), k = node_of(c);
  VA(i >= 0 && j >= 0 && k >= 0); ASSUME(i >= 0 && j >= 0 && k >= 0);
  return (double)g_dotsign[i][j][k];       // callers only test the sign
}
static void fill_tables() {
  for (int i = 0; i < RN; ++i) for (int j = 0; j < RN; ++j) for (int k = 0; k < RN; ++k) {
    const Point64& a = g_ops[i]->pt; const Point64& b = g_ops[j]->pt; const Point64& c = g_ops[k]->pt;
    int64_t cr = (b.x - a.x) * (c.y - b.y) - (b.y - a.y) * (c.x - b.x), dt = (b.x - a.x) * (c.x - b.x) + (b.y - a.y) * (c.y - b.y);   // tiny values: exact in 64 bits
    g_col[i][j][k] = cr == 0; g_dotsign[i][j][k] = dt > 0 ? 1 : (dt < 0 ? -1 : 0);
  }
}
// vector append without the reallocation path: the harness reserves enough capacity and this asserts it (no growth under symbolic guards)
extern "C" __attribute__((noinline)) Point64* stub_path_append(Path64* v, const Point64& p) {
  VA(v->_M_impl._M_finish != v->_M_impl._M_end_of_storage); ASSUME(v->_M_impl._M_finish != v->_M_impl._M_end_of_storage);
  Point64* f = v->_M_impl._M_finish; *f = p; v->_M_impl._M_finish = f + 1; return f;
}
extern "C" __attribute__((noinline)) LocalMinima_ptr* stub_locmin_append(LocalMinimaList* v, LocalMinima_ptr&& p) {
  VA(v->_M_impl._M_finish != v->_M_impl._M_end_of_storage); ASSUME(v->_M_impl._M_finish != v->_M_impl._M_end_of_storage);
  LocalMinima_ptr* f = v->_M_impl._M_finish; new (f) LocalMinima_ptr(std::move(p)); v->_M_impl._M_finish = f + 1; return f;
}

// C03.a: CleanCollinear + BuildPath64 on an arbitrary ring of RN output points
extern "C" void harness_cleancollinear() {
  ClipperBase& c = *new Clipper64();
  c.preserve_collinear_ = nondet_bool();
  bool reverse = nondet_bool();
  OutRec* rec = c.NewOutRec();
  OutPt* ops[RN];
  for (int i = 0; i < RN; ++i) ops[i] = new OutPt(Point64(nd_range(0, G), nd_range(0, G)), rec);
  for (int i = 0; i < RN; ++i) { ops[i]->next = ops[(i + 1) % RN]; ops[i]->prev = ops[(i + RN - 1) % RN]; }
  rec->pts = ops[nd_int(0, RN - 1)];
  for (int i = 0; i < RN; ++i) g_ops[i] = ops[i];
  fill_tables();
  c.CleanCollinear(rec);
  Path64 path; path.reserve(RN + 1);
  bool ok = rec->pts && BuildPath64(rec->pts, reverse, false, path);
  if (ok) {
    int m = (int)path.size();
    VA(m >= 3 && m <= RN); ASSUME(m >= 3 && m <= RN);
    Point64 p[RN];
    for (int k = 0; k < RN; ++k) if (k < m) p[k] = path[k];
    for (int k = 0; k < RN; ++k) {
      if (k >= m) break;
      const Point64& a = p[(k + m - 1) % m]; const Point64& b = p[k]; const Point64& d = p[(k + 1) % m];
      VA(!(a == b));                                                        // no two consecutive vertices equal (last/first included)
      if (!c.preserve_collinear_) VA(cross3(a, b, d) != 0);                 // no three consecutive collinear
      else VA(!(cross3(a, b, d) == 0 && dot3(a, b, d) < 0));                // no 180-degree spike
      VA(b.x >= 0 && b.x <= G && b.y >= 0 && b.y <= G);                     // inside the bounding box of the ring it came from
    }
  }
  verif_reach();
}

// C03.a': BuildPath64 alone never emits equal neighbours inside the path and rejects rings of fewer than 3 points / tiny triangles
extern "C" void harness_buildpath() {
  OutRec rec0; OutRec* rec = &rec0;
  OutPt* ops[RN];
  for (int i = 0; i < RN; ++i) ops[i] = new OutPt(Point64(nd_range(0, G), nd_range(0, G)), rec);
  for (int i = 0; i < RN; ++i) { ops[i]->next = ops[(i + 1) % RN]; ops[i]->prev = ops[(i + RN - 1) % RN]; }
  bool reverse = nondet_bool(), open = nondet_bool();
  Path64 path; path.reserve(RN + 1);
  bool ok = BuildPath64(ops[0], reverse, open, path);
  if (open) VA(ok);            // an open piece is never discarded by the closed-path degeneracy filter (tiny triangles)
  if (ok) {
    int m = (int)path.size(); VA(m >= 1 && m <= RN);
    for (int k = 0; k + 1 < RN; ++k) { if (k + 1 >= m) break; VA(path[k] != path[k + 1]); }
    // order: forward starts after op, reverse starts at op
    VA(path[0] == (reverse ? ops[0]->pt : ops[1]->pt));
  }
  verif_reach();
}

// C03: IsValidClosedPath: at least three points, and a three-point ring must not be a "very small triangle" (two vertices
// closer than 2 units in both axes)
extern "C" void harness_validclosed() {
  OutRec rec0; OutPt* ops[RN];
  const int64_t M = (int64_t)1 << 61;
  for (int i = 0; i < RN; ++i) ops[i] = new OutPt(Point64(nd_range(-M, M), nd_range(-M, M)), &rec0);
  for (int i = 0; i < RN; ++i) { ops[i]->next = ops[(i + 1) % RN]; ops[i]->prev = ops[(i + RN - 1) % RN]; }
  bool v = IsValidClosedPath(ops[0]);
  bool tiny = false;
  if (RN == 3) for (int i = 0; i < 3; ++i) { const Point64& a = ops[i]->pt; const Point64& b = ops[(i + 1) % 3]->pt; int64_t dx = a.x - b.x, dy = a.y - b.y; if (dx > -2 && dx < 2 && dy > -2 && dy < 2) tiny = true; }
  VA(v == (RN >= 3 && !tiny));
  VA(!IsValidClosedPath(nullptr));
  verif_reach();
}

// C04.c: SetOwner never creates an ownership cycle
#define NR 4
extern "C" void harness_setowner() {
  OutRec* r[NR]; OutPt* dummy = new OutPt(Point64((int64_t)0, (int64_t)0), nullptr);
  for (int i = 0; i < NR; ++i) { r[i] = new OutRec(); r[i]->idx = i; r[i]->pts = nondet_bool() ? dummy : nullptr; }
  // arbitrary acyclic owner forest: owner index is smaller than own index, or none (any forest can be numbered this way)
  int perm_owner[NR];
  for (int i = 0; i < NR; ++i) { int o = nd_int(-1, i - 1); perm_owner[i] = o; r[i]->owner = o < 0 ? nullptr : r[o]; }
  int a = nd_int(0, NR - 1), b = nd_int(0, NR - 1);
  ASSUME(a != b);
  SetOwner(r[a], r[b]);
  VA(r[a]->owner == r[b]);
  for (int i = 0; i < NR; ++i) {        // from every record, following owner ends at null within NR steps
    OutRec* p = r[i]; for (int s = 0; s < NR; ++s) { if (!p) break; p = p->owner; }
    VA(p == nullptr);
  }
  verif_reach();
}

// C04.d: PolyPath level / hole parity
extern "C" void harness_polypath_level() {
  PolyTree64 tree;
  Path64 sq; sq.push_back(Point64((int64_t)0, (int64_t)0)); sq.push_back(Point64((int64_t)4, (int64_t)0)); sq.push_back(Point64((int64_t)4, (int64_t)4));
  PolyPath64* a = tree.AddChild(sq); PolyPath64* b = a->AddChild(sq); PolyPath64* c = b->AddChild(sq); PolyPath64* d = tree.AddChild(sq);
  VA(tree.Level() == 0 && a->Level() == 1 && b->Level() == 2 && c->Level() == 3 && d->Level() == 1);
  VA(!tree.IsHole() && !a->IsHole() && b->IsHole() && !c->IsHole() && !d->IsHole());
  VA(tree.Count() == 2 && a->Count() == 1 && a->Parent() == &tree && c->Parent() == b);
  verif_reach();
}

// C13.b: the sort comparators are strict weak orders (otherwise std::sort / stable_sort is undefined and input-order dependent)
extern "C" void harness_locmin_sorter() {
  Vertex v[3]; LocalMinima_ptr m[3];
  for (int i = 0; i < 3; ++i) { v[i].pt = Point64(nondet_i64(), nondet_i64()); m[i] = std::make_unique<LocalMinima>(&v[i], PathType::Subject, false); }
  LocMinSorter lt;
  bool ab = lt(m[0], m[1]), ba = lt(m[1], m[0]), bc = lt(m[1], m[2]), cb = lt(m[2], m[1]), ac = lt(m[0], m[2]), ca = lt(m[2], m[0]);
  VA(!lt(m[0], m[0]));
  VA(!(ab && ba));
  if (ab && bc) VA(ac);
  if (!ab && !ba && !bc && !cb) VA(!ac && !ca);     // incomparability is transitive
  // the order is: larger y first, then smaller x first
  VA(ab == (v[0].pt.y > v[1].pt.y || (v[0].pt.y == v[1].pt.y && v[0].pt.x < v[1].pt.x)));
  verif_reach();
}
extern "C" void harness_intersect_sorter() {
  IntersectNode n[3];
  for (int i = 0; i < 3; ++i) n[i].pt = Point64(nondet_i64(), nondet_i64());
  bool ab = IntersectListSort(n[0], n[1]), ba = IntersectListSort(n[1], n[0]), bc = IntersectListSort(n[1], n[2]), cb = IntersectListSort(n[2], n[1]), ac = IntersectListSort(n[0], n[2]), ca = IntersectListSort(n[2], n[0]);
  VA(!IntersectListSort(n[0], n[0]));
  VA(!(ab && ba));
  if (ab && bc) VA(ac);
  if (!ab && !ba && !bc && !cb) VA(!ac && !ca);
  VA(ab == (n[0].pt.y > n[1].pt.y || (n[0].pt.y == n[1].pt.y && n[0].pt.x < n[1].pt.x)));
  verif_reach();
}
extern "C" void harness_horzseg_sorter() {
  OutPt* l[3]; OutPt* rgt = new OutPt(Point64((int64_t)0, (int64_t)0), nullptr); HorzSegment h[3];
  for (int i = 0; i < 3; ++i) { l[i] = new OutPt(Point64(nondet_i64(), (int64_t)0), nullptr); h[i].left_op = l[i]; h[i].right_op = nondet_bool() ? rgt : nullptr; }
  HorzSegSorter lt;
  bool ab = lt(h[0], h[1]), ba = lt(h[1], h[0]), bc = lt(h[1], h[2]), cb = lt(h[2], h[1]), ac = lt(h[0], h[2]), ca = lt(h[2], h[0]);
  VA(!lt(h[0], h[0]));
  VA(!(ab && ba));
  if (ab && bc) VA(ac);
  if (!ab && !ba && !bc && !cb) VA(!ac && !ca);
  verif_reach();
}

// C13.a / C10.a: AddPaths_ on one closed path of PN symbolic vertices: same vertex ring (points, LocalMin/LocalMax flags) and the same
// multiset of local minima whether the path starts at vertex 0 or at vertex 1; all array accesses in bounds (CBMC checks)
#ifndef PN
#define PN 3
#endif
#ifndef PLIM
#define PLIM ((int64_t)1 << 62)
#endif
static VertexFlags flags_of(Vertex* ring, const Point64& pt, int n, bool& found) {
  Vertex* v = ring; found = false;
  for (int k = 0; k < PN + 1; ++k) { if (k >= n) break; if (v->pt == pt) { found = true; return v->flags; } v = v->next; }
  return VertexFlags::Empty;
}
extern "C" void harness_addpaths_rotation() {
  Point64 p[PN];
  for (int i = 0; i < PN; ++i) p[i] = Point64(nd_range(-PLIM, PLIM), nd_range(-PLIM, PLIM));
  for (int i = 0; i < PN; ++i) for (int j = i + 1; j < PN; ++j) ASSUME(p[i] != p[j]);   // distinct vertices: flags can be looked up by point
  Paths64 a(1), b(1);
  for (int i = 0; i < PN; ++i) { a[0].push_back(p[i]); b[0].push_back(p[(i + 1) % PN]); }
  std::vector<Vertex*> va, vb; LocalMinimaList la, lb;
  la.reserve(PN + 1); lb.reserve(PN + 1); va.reserve(2); vb.reserve(2);
  AddPaths_(a, PathType::Subject, false, va, la);
  AddPaths_(b, PathType::Subject, false, vb, lb);
  VA(va.size() == 1 && vb.size() == 1);
  VA(la.size() == lb.size());
  bool flat = true; for (int i = 1; i < PN; ++i) if (p[i].y != p[0].y) flat = false;
  if (!flat) {
    VA(la.size() >= 1);                         // a closed non-flat path has at least one local minimum
    for (int i = 0; i < PN; ++i) {
      bool fa, fb; VertexFlags xa = flags_of(va[0], p[i], PN, fa), xb = flags_of(vb[0], p[i], PN, fb);
      VA(fa && fb); VA(xa == xb);
    }
    // every registered local minimum is a vertex flagged LocalMin, of the right type, not open
    for (size_t k = 0; k < PN + 1; ++k) { if (k >= la.size()) break; VA((la[k]->vertex->flags & VertexFlags::LocalMin) != VertexFlags::Empty); VA(la[k]->polytype == PathType::Subject && !la[k]->is_open); }
    // number of LocalMin flags == number of LocalMax flags == number of registered minima
    int nmin = 0, nmax = 0; Vertex* v = va[0];
    for (int k = 0; k < PN; ++k) { if ((v->flags & VertexFlags::LocalMin) != VertexFlags::Empty) ++nmin; if ((v->flags & VertexFlags::LocalMax) != VertexFlags::Empty) ++nmax; v = v->next; }
    VA(nmin == nmax && (size_t)nmin == la.size());
  }
  verif_reach();
}

// C10.a: degenerate path lists never index outside the vertex array: empty list, empty path, 1- and 2-point paths, duplicates, closing vertex
extern "C" void harness_addpaths_degenerate() {
  Paths64 a(3);
  Point64 q(nd_range(-PLIM, PLIM), nd_range(-PLIM, PLIM)), r(nd_range(-PLIM, PLIM), nd_range(-PLIM, PLIM));
  a[1].push_back(q);                                        // a[0] empty, a[1] single point
  a[2].push_back(q); a[2].push_back(r); a[2].push_back(r); a[2].push_back(q);   // duplicates + closing vertex: 2 distinct points at most
  bool open = nondet_bool();
  std::vector<Vertex*> va; LocalMinimaList la; la.reserve(8); va.reserve(2);
  AddPaths_(a, PathType::Clip, open, va, la);
  VA(va.size() == 1);
  // (a 2-vertex closed ring given with a closing vertex does register a minimum: harmless, it yields no output; not asserted)
  for (size_t k = 0; k < 8; ++k) { if (k >= la.size()) break; VA((la[k]->vertex->flags & VertexFlags::LocalMin) != VertexFlags::Empty); VA(la[k]->vertex >= va[0] && la[k]->vertex < va[0] + 5); }
  Paths64 none; std::vector<Vertex*> vn; LocalMinimaList ln;
  AddPaths_(none, PathType::Subject, false, vn, ln);
  VA(vn.empty() && ln.empty());
  verif_reach();
}

// C10.d: no signed overflow in the integer kernels for |coordinates| <= 2^29 (ir2c asserts every nsw add/sub/mul)
static const int64_t L29 = (int64_t)1 << 29;
static inline int64_t c29() { return nd_range(-L29, L29); }
extern "C" void harness_nsw_kernels() {
  Point64 a(c29(), c29()), b(c29(), c29()), c(c29(), c29());
  (void)CrossProductSign(a, b, c); (void)IsCollinear(a, b, c);
  (void)MidPoint(a, b);
  Rect64 r(c29(), c29(), c29(), c29()); (void)r.MidPoint(); (void)r.Width(); (void)r.Height();
  Active e; e.bot = a; e.top = b; ASSUME(a.y != b.y); e.dx = 0.0;     // TopX extrapolation arithmetic (integer part)
  int64_t y = c29(); (void)TopX(e, y);
  (void)PtsReallyClose(a, b);
  Path64 tri; tri.push_back(a); tri.push_back(b); tri.push_back(c);
  (void)GetBounds(tri);
  verif_reach();
}

// ---- C02: mechanisms that make rectilinear input exact ----------------------------------------------------------
static const int64_t M61 = (int64_t)1 << 61;
static inline int64_t c61() { return nd_range(-M61, M61); }
// C02.a: no rounding can occur on axis-parallel edges: TopX of a vertical edge is its x at every y; its dx is exactly 0; a
// horizontal edge gets -/+DBL_MAX by direction
extern "C" void harness_rectilinear_kernels() {
  Active e; int64_t x = c61(), y0 = c61(), y1 = c61(); ASSUME(y0 != y1);
  e.bot = Point64(x, y0); e.top = Point64(x, y1);
  SetDx(e);
  VA(e.dx == 0.0);
  int64_t y = c61();
  VA(TopX(e, y) == x);
  VA(!IsHorizontal(e));
  Active h; int64_t xa = c61(), xb = c61(), yy = c61(); ASSUME(xa != xb);
  h.bot = Point64(xa, yy); h.top = Point64(xb, yy);
  SetDx(h);
  VA(IsHorizontal(h));
  VA(xb > xa ? IsHeadingRightHorz(h) && !IsHeadingLeftHorz(h) : IsHeadingLeftHorz(h) && !IsHeadingRightHorz(h));
  h.curr_x = xa;
  VA(TopX(h, yy) == xb);     // at its own y a horizontal edge reports its top x
  verif_reach();
}

// C02.b: TrimHorz walks to the end of the horizontal run in travel direction (stopping at a reversal iff preserve_collinear,
// always at a local maximum) and re-sets dx; ResetHorzDirection orders the extent
#ifndef HN
#define HN 4
#endif
static Point64 g_vsnap[HN + 1];
extern "C" void harness_trimhorz() {
  // vertex ring v[0..HN-1]; the edge under test runs v[0] -> v[1] (horizontal), v[1..] continue horizontally or not
  Vertex v[HN + 1];
  int64_t y = c61();
  for (int i = 0; i <= HN; ++i) { v[i].pt = Point64(c61(), (i <= 1 || nondet_bool()) ? y : c61()); v[i].flags = nondet_bool() ? VertexFlags::LocalMax : VertexFlags::Empty; }
  for (int i = 0; i <= HN; ++i) { v[i].next = &v[(i + 1) % (HN + 1)]; v[i].prev = &v[(i + HN) % (HN + 1)]; }
  for (int i = 0; i <= HN; ++i) g_vsnap[i] = v[i].pt;
  ASSUME(v[0].pt.x != v[1].pt.x);
  ASSUME(v[HN].pt.y != y);                     // the run ends inside the ring
  LocalMinima lm(&v[0], PathType::Subject, false);
  Active e; e.bot = v[0].pt; e.top = v[1].pt; e.vertex_top = &v[1]; e.wind_dx = 1; e.local_min = &lm; e.curr_x = e.bot.x;
  SetDx(e);
  bool pres = nondet_bool();
  TrimHorz(e, pres);
  // specification: extend while the next vertex is on the same y, the current top is not a local maximum, and (if preserving
  // collinear) the next vertex continues in the travel direction seen from the current top
  int k = 1;
  for (int step = 0; step < HN; ++step) {
    if (k >= HN) break;
    const Point64& nx = v[k + 1].pt;
    if (nx.y != y) break;
    if (pres && ((nx.x < v[k].pt.x) != (v[0].pt.x < v[k].pt.x))) break;
    bool was_max_before_move = false;
    k = k + 1;
    if ((v[k].flags & VertexFlags::LocalMax) != VertexFlags::Empty) break;
  }
  VA(e.vertex_top == &v[k]); VA(e.top == v[k].pt); VA(e.bot == v[0].pt);
  // the sweep only reads the vertex rings (they may belong to a ReuseableDataContainer64 shared with other clippers: C12, C14)
  for (int i = 0; i <= HN; ++i) { VA(v[i].next == &v[(i + 1) % (HN + 1)] && v[i].prev == &v[(i + HN) % (HN + 1)]); VA(v[i].pt == g_vsnap[i]); }
  if (e.top.x != e.bot.x) VA(e.top.x > e.bot.x ? IsHeadingRightHorz(e) : IsHeadingLeftHorz(e));
  verif_reach();
}
extern "C" void harness_resethorz() {
  ClipperBase& c = *new Clipper64();
  Active h; int64_t y = c61(); h.bot = Point64(c61(), y); h.top = Point64(c61(), y); h.curr_x = c61();
  int64_t l, r;
  bool ltr = c.ResetHorzDirection(h, nullptr, l, r);
  VA(l <= r);
  if (h.bot.x != h.top.x) { VA(ltr == (h.curr_x < h.top.x)); VA((l == h.curr_x && r == h.top.x) || (l == h.top.x && r == h.curr_x)); }
  else { VA(l == h.curr_x && r == h.curr_x); VA(!ltr); }   // no maxima pair in an empty AEL
  verif_reach();
}

// C05.d: AddPaths_ on an OPEN path keeps every vertex that differs from its predecessor (a last vertex equal to the first one
// is NOT a closing duplicate), flags the first OpenStart and the last OpenEnd
#ifndef ON
#define ON 4
#endif
extern "C" void harness_addpaths_open() {
  Point64 p[ON]; const int64_t R = 3;           // small range so that coincidences (incl. last == first) are frequent
  for (int i = 0; i < ON; ++i) p[i] = Point64(nd_range(0, R), nd_range(0, R));
  Paths64 a(1); for (int i = 0; i < ON; ++i) a[0].push_back(p[i]);
  std::vector<Vertex*> va; LocalMinimaList la; la.reserve(ON + 2); va.reserve(2);
  AddPaths_(a, PathType::Subject, true, va, la);
  // expected vertex sequence: consecutive duplicates removed, nothing else
  Point64 e[ON]; int m = 0;
  for (int i = 0; i < ON; ++i) if (m == 0 || e[m - 1] != p[i]) e[m++] = p[i];
  VA(va.size() == 1); ASSUME(va.size() == 1);
  if (m >= 2) {
    Vertex* v = va[0];
    for (int k = 0; k < ON; ++k) { if (k >= m) break; VA(v->pt == e[k]); if (k + 1 < m) v = v->next; }
    VA(v->next == va[0]);                                              // the ring closes after exactly m vertices
    VA((va[0]->flags & VertexFlags::OpenStart) != VertexFlags::Empty);
    VA((v->flags & VertexFlags::OpenEnd) != VertexFlags::Empty);
    for (size_t k = 0; k < ON + 2; ++k) { if (k >= la.size()) break; VA(la[k]->is_open); }
  } else VA(la.empty());
  verif_reach();
}

// C02.d: CheckJoinLeft / CheckJoinRight only ever join two hot, closed, NON-horizontal neighbours whose tops are collinear with pt
static int g_joinrec; static Vertex g_v[2];
extern "C" __attribute__((noinline)) OutPt* stub_addlocalmaxpoly(ClipperBase* s, Active& e1, Active& e2, const Point64& pt) { g_joinrec += 1; return nullptr; }
extern "C" __attribute__((noinline)) void stub_joinoutrecpaths(ClipperBase* s, Active& e1, Active& e2) { g_joinrec += 16; }
extern "C" __attribute__((noinline)) double stub_perpdist(const Point64& pt, const Point64& l1, const Point64& l2) { double d = nondet_double(); ASSUME(d >= 0.0 && d <= 1e30); return d; }
// IsCollinear replaced by an arbitrary verdict (its exactness is C18.b); the call must be on (this edge's top, pt, neighbour's top)
static bool g_colverdict; static int g_colcalls; static Point64 g_colargs[3];
extern "C" __attribute__((noinline)) bool stub_iscollinear_any(const Point64& p1, const Point64& p2, const Point64& p3) { g_colcalls++; g_colargs[0] = p1; g_colargs[1] = p2; g_colargs[2] = p3; return g_colverdict; }
extern "C" void harness_checkjoin() {
  ClipperBase& c = *new Clipper64();
  const int64_t L = (int64_t)1 << 20;
  Active& a = *new Active(); Active& b = *new Active();           // a is left of b in the AEL
  a.next_in_ael = &b; b.prev_in_ael = &a; c.actives_ = &a;
  Active* es[2] = {&a, &b};
  for (int k = 0; k < 2; ++k) {
    Active& e = *es[k];
    e.bot = Point64(nd_range(-L, L), nd_range(-L, L)); e.top = Point64(nd_range(-L, L), nd_range(-L, L));
    ASSUME(e.top.y <= e.bot.y);                                    // Clipper's sweep: top is the smaller y
    e.curr_x = nd_range(-L, L);
    e.local_min = new LocalMinima(&g_v[0], nondet_bool() ? PathType::Clip : PathType::Subject, nondet_bool());
    OutRec* r = new OutRec(); r->idx = (size_t)nd_int(0, 1);        // allocated unconditionally: heap shape stays concrete
    e.outrec = nondet_bool() ? r : nullptr;
  }
  Point64 pt(nd_range(-L, L), nd_range(-L, L));
  bool right = nondet_bool(), chk = nondet_bool();
  g_joinrec = 0; g_colcalls = 0; g_colverdict = nondet_bool();
  if (right) c.CheckJoinRight(a, pt, chk); else c.CheckJoinLeft(b, pt, chk);
  bool joined = a.join_with != JoinWith::NoJoin || b.join_with != JoinWith::NoJoin;
  if (joined) {
    VA(a.join_with == JoinWith::Right && b.join_with == JoinWith::Left);
    VA(a.outrec && b.outrec);
    VA(!a.local_min->is_open && !b.local_min->is_open);
    VA(a.top.y != a.bot.y && b.top.y != b.bot.y);                   // never a horizontal edge (keeps rectilinear output exact)
    VA(g_colcalls == 1 && g_colverdict);                            // the collinearity test was made and said yes ...
    VA(g_colargs[1] == pt && ((g_colargs[0] == a.top && g_colargs[2] == b.top) || (g_colargs[0] == b.top && g_colargs[2] == a.top)));   // ... on the two tops and pt
    if (!chk) VA(a.curr_x == b.curr_x);
    VA(g_joinrec == 1 || g_joinrec == 16);                          // exactly one of: close the shared contour / merge the two contours
  } else VA(g_joinrec == 0);
  verif_reach();
}

// C03 / C15: one DoSplitOp step (repair of a self-intersecting output ring) from an arbitrary ring, for EVERY intersection point and
// EVERY area verdict: GetSegmentIntersectPt, Area and AreaTriangle are replaced by arbitrary values (the obligation quantifies over them).
//   - the repaired ring stays a consistently linked ring of the surviving input nodes (+ at most one new node at ip), with no two
//     equal neighbours when the input had none;
//   - a split-off triangle is the ring (ip, splitOp, splitOp->next), owned by the new OutRec;
//   - (USINGZ) every vertex created here carries the z the callback assigned for this crossing, input vertices keep theirs.
#ifndef SN
#define SN 5
#endif
static int64_t g_ipx, g_ipy; static int g_gsip_calls; static const Point64* g_gsip_args[4];
static double g_area1, g_area2; static OutRec* g_newor; static int g_newor_calls;
extern "C" __attribute__((noinline)) bool stub_gsip(const Point64& a, const Point64& b, const Point64& c, const Point64& d, Point64& ip) {
  g_gsip_calls++; g_gsip_args[0] = &a; g_gsip_args[1] = &b; g_gsip_args[2] = &c; g_gsip_args[3] = &d; ip.x = g_ipx; ip.y = g_ipy; return true;
}
extern "C" __attribute__((noinline)) double stub_area_op(OutPt* op) { return g_area1; }
extern "C" __attribute__((noinline)) double stub_area_tri(const Point64& a, const Point64& b, const Point64& c) { return g_area2; }
extern "C" __attribute__((noinline)) bool stub_p1inp2(OutPt* a, OutPt* b) { return nondet_bool(); }
extern "C" __attribute__((noinline)) OutRec* stub_newoutrec(ClipperBase* self) { g_newor_calls++; return g_newor; }
#ifdef USINGZ
static int g_zcalls; static int64_t g_ztag; static Point64 g_zargs[4]; static int64_t g_zipx, g_zipy;
static void split_zcb(const Point64& a, const Point64& b, const Point64& c, const Point64& d, Point64& pt) {
  g_zcalls++; g_zargs[0] = a; g_zargs[1] = b; g_zargs[2] = c; g_zargs[3] = d; g_zipx = pt.x; g_zipy = pt.y; pt.z = g_ztag;
}
#endif
extern "C" void harness_dosplitop() {
  Clipper64& c = *new Clipper64();
  c.using_polytree_ = nondet_bool();
  OutRec* rec = new OutRec(); OutRec* owner = new OutRec(); rec->owner = nondet_bool() ? owner : nullptr;
  g_newor = new OutRec();
  OutPt* ops[SN]; int64_t zin[SN];
  for (int i = 0; i < SN; ++i) {
    Point64 p(nd_range(0, G), nd_range(0, G));
#ifdef USINGZ
    zin[i] = nondet_i64(); p.z = zin[i];
#endif
    ops[i] = new OutPt(p, rec);
  }
  for (int i = 0; i < SN; ++i) { ops[i]->next = ops[(i + 1) % SN]; ops[i]->prev = ops[(i + SN - 1) % SN]; }
  // the ring CleanCollinear hands over has no equal neighbours; properly crossing segments have four distinct end points
  for (int i = 0; i < SN; ++i) ASSUME(!(ops[i]->pt == ops[(i + 1) % SN]->pt));
  ASSUME(!(ops[0]->pt == ops[3]->pt));
  rec->pts = ops[nd_int(0, SN - 1)];
  g_ipx = nd_range(0, G); g_ipy = nd_range(0, G);
  g_area1 = nondet_double(); g_area2 = nondet_double(); ASSUME(g_area1 == g_area1 && g_area2 == g_area2);
#ifdef USINGZ
  bool with_cb = nondet_bool(); g_ztag = nondet_i64();
  if (with_cb) c.SetZCallback(split_zcb);
#endif
  OutPt* prevOp = ops[0]; OutPt* splitOp = ops[1]; OutPt* nextOp = ops[2]; OutPt* nnOp = ops[3];
  c.DoSplitOp(rec, splitOp);
  VA(g_gsip_calls == 1 && g_gsip_args[0] == &prevOp->pt && g_gsip_args[1] == &splitOp->pt && g_gsip_args[2] == &nextOp->pt && g_gsip_args[3] == &nnOp->pt);
  double a1 = g_area1 < 0 ? -g_area1 : g_area1, a2 = g_area2 < 0 ? -g_area2 : g_area2;
  if (!rec->pts) { VA(a1 < 2); VA(g_newor_calls == 0); verif_reach(); return; }
  VA(!(a1 < 2));
  // main ring: prevOp, [new node at ip], nnOp, ops[4..]
  VA(rec->pts == prevOp);
  OutPt* n1 = prevOp->next; OutPt* fresh = nullptr;
  if (n1 != nnOp) { fresh = n1; for (int i = 4; i < SN; ++i) { VA(fresh != ops[i]); ASSUME(fresh != ops[i]); }
    VA(fresh->pt.x == g_ipx && fresh->pt.y == g_ipy && fresh->prev == prevOp && fresh->next == nnOp && nnOp->prev == fresh && fresh->outrec == rec); }
  else VA(nnOp->prev == prevOp);
  for (int i = 3; i < SN; ++i) { VA(ops[i]->next == ops[(i + 1) % SN]); VA(ops[(i + 1) % SN]->prev == ops[i]); VA(ops[i]->outrec == rec); }
  // no equal neighbours in the repaired ring
  if (fresh) { VA(!(fresh->pt == prevOp->pt)); VA(!(fresh->pt == nnOp->pt)); }
  else VA(!(prevOp->pt == nnOp->pt));
  // the vertex at ip is left out only when it coincides with a neighbour it would sit next to
  if (!fresh) VA((g_ipx == prevOp->pt.x && g_ipy == prevOp->pt.y) || (g_ipx == nnOp->pt.x && g_ipy == nnOp->pt.y));
  OutPt* tri = nullptr;
  if (g_newor_calls) {
    VA(g_newor_calls == 1 && a2 >= 1);
    tri = g_newor->pts; VA(tri && tri != splitOp && tri != nextOp && tri != fresh); ASSUME(tri && tri != splitOp && tri != nextOp);
    VA(tri->pt.x == g_ipx && tri->pt.y == g_ipy);
    VA(tri->next == splitOp && splitOp->next == nextOp && nextOp->next == tri && tri->prev == nextOp && nextOp->prev == splitOp && splitOp->prev == tri);
    VA(tri->outrec == g_newor && splitOp->outrec == g_newor && nextOp->outrec == g_newor && g_newor->owner == rec->owner);
  } else VA(a2 < 1 || !(a2 > a1 || (g_area2 > 0) == (g_area1 > 0)));
#ifdef USINGZ
  if (with_cb) {
    VA(g_zcalls == 1 && g_zargs[0] == prevOp->pt && g_zargs[3] == nnOp->pt && g_zipx == g_ipx && g_zipy == g_ipy);
    if (fresh) VA(fresh->pt.z == g_ztag);
    if (tri) VA(tri->pt.z == g_ztag);
  } else {
    VA(g_zcalls == 0);
    if (fresh) VA(fresh->pt.z == 0);
    if (tri) VA(tri->pt.z == 0);
  }
  VA(ops[0]->pt.z == zin[0] && ops[3]->pt.z == zin[3] && ops[SN - 1]->pt.z == zin[SN - 1]);
  if (tri) VA(splitOp->pt.z == zin[1] && nextOp->pt.z == zin[2]);
#endif
  verif_reach();
}

// C13 (scaling / mirroring, coordinates up to 2^40): TopX is exact on edges of integer slope - the x of the edge at a scanline is the
// integer point on it, so scaling an input by an integer or mirroring it moves every such crossing with the input. The slope member dx
// is set to the value GetDx yields for such an edge (an exactly representable integer; correctly rounded division is exact there).
extern "C" void harness_topx_exact() {
  static const int64_t K[8] = {1, -1, 2, -2, 4, -4, 16, -1024};
  const int64_t L40 = (int64_t)1 << 40;
#ifdef KIDX
  int64_t k = K[KIDX];      // one slope per obligation: a constant multiplier keeps the floating-point product within reach of the SAT back ends
#else
  int64_t k = K[nd_int(0, 7)];
#endif
#ifndef TOPX_H
#define TOPX_H (L40 / 8)
#endif
  int64_t h = nd_range(1, TOPX_H);
  Active e; e.bot = Point64(nd_range(-L40, L40), nd_range(-L40, L40)); e.top = Point64(e.bot.x + k * h, e.bot.y - h);
  e.dx = (double)(-k);
  int64_t y = nd_range(-2 * L40, 2 * L40); ASSUME(y <= e.bot.y && y >= e.top.y);
  int64_t x = TopX(e, y);
  int64_t mag = e.bot.y - y;      // sign-magnitude shape, like the floating-point product it is compared with (DESIGN 1.4)
  VA(k > 0 ? x == e.bot.x + k * mag : x == e.bot.x - (-k) * mag);
  // (the mirror image of an edge of slope k is an edge of slope -k: both signs are in the table; the negative ones are parked, see props/C13.py)
  verif_reach();
}

// C02 (horizontal joins): GetLastOp(e) is the output point most recently added on e's side of its ring, i.e. exactly what AddOutPt(e, .)
// returned last - for the front edge the ring head, for the back edge the point after it; the ring stays consistently linked and
// grows by at most one point.
#ifndef LN
#define LN 3
#endif
extern "C" void harness_getlastop() {
  Clipper64& c = *new Clipper64();
  OutRec* rec = new OutRec(); Active& f = *new Active(); Active& b = *new Active();
  rec->front_edge = &f; rec->back_edge = &b; f.outrec = rec; b.outrec = rec;
  OutPt* ops[LN];
  for (int i = 0; i < LN; ++i) ops[i] = new OutPt(Point64(nd_range(0, G), nd_range(0, G)), rec);
  for (int i = 0; i < LN; ++i) { ops[i]->next = ops[(i + 1) % LN]; ops[i]->prev = ops[(i + LN - 1) % LN]; }
  rec->pts = ops[0];
  bool front = nondet_bool(); Active& e = front ? f : b;
  Point64 pt(nd_range(0, G), nd_range(0, G));
  OutPt* last = c.AddOutPt(e, pt);
  VA(last->pt == pt && last->outrec == rec);
  VA(GetLastOp(e) == last);
  VA(GetLastOp(front ? b : f) == (front ? rec->pts->next : rec->pts));       // the other side's last point is untouched
  VA((front ? rec->pts->next : rec->pts) == (front ? ops[1] : ops[0]));
  // ring: LN or LN+1 points, consistently linked, the new one between head and former second point
  int n = 0; OutPt* p = rec->pts;
  for (int i = 0; i < LN + 2; ++i) { VA(p->next->prev == p); ++n; p = p->next; if (p == rec->pts) break; }
  VA(p == rec->pts && (n == LN || n == LN + 1));
  bool fresh = true; for (int i = 0; i < LN; ++i) if (last == ops[i]) fresh = false;
  VA(fresh == (n == LN + 1));
  if (!fresh) VA(last == (front ? ops[0] : ops[1]));
  verif_reach();
}

// C10 / C04: CheckSplitOwner (owner search through the 'splits' lists while a PolyTree is built) terminates on EVERY split graph -
// also on cyclic ones among records whose ring has been merged away (pts == nullptr), which horizontal joins do produce - and when it
// reports success the owner it installed is a live ring other than the record itself.
#ifndef CN
#define CN 3
#endif
extern "C" __attribute__((noinline)) bool stub_checkbounds(ClipperBase* s, OutRec* r) { return r->pts != nullptr && nondet_bool(); }
extern "C" __attribute__((noinline)) bool stub_p1inp2_b(OutPt* a, OutPt* b) { return nondet_bool(); }
extern "C" void harness_checksplitowner() {
  Clipper64& c = *new Clipper64();
  OutRec* o = new OutRec(); o->pts = new OutPt(Point64((int64_t)0, (int64_t)0), o);
  OutRec* r[CN]; OutRecList* lists[CN]; OutPt* rings[CN];
  for (int i = 0; i < CN; ++i) { r[i] = new OutRec(); lists[i] = new OutRecList((size_t)2, (OutRec*)nullptr); rings[i] = new OutPt(Point64((int64_t)i, (int64_t)1), r[i]); }
  for (int i = 0; i < CN; ++i) {
#ifdef PTSMASK   // which records still have a ring is fixed per obligation (bit i = record i is live): with it symbolic the recursion tree
                 // has no concrete shape for symbolic execution (no verdict in 900 s even for one record)
    r[i]->pts = ((PTSMASK >> i) & 1) ? rings[i] : nullptr;
#else
    r[i]->pts = nondet_bool() ? rings[i] : nullptr;
#endif
    // the split graph is the complete one (every record lists the next two of the cycle r0, r1, .., o): all cycles, the searching record included;
    // which entries are live is decided by the symbolic pts / splits / mark fields (a symbolic graph shape makes every list loop symbolic: no verdict)
    for (int k = 1; k <= 2; ++k) { int j = (i + k) % (CN + 1); (*lists[i])[k - 1] = (j == CN ? o : r[j]); }
#ifdef PTSMASK
    r[i]->splits = lists[i];
#else
    r[i]->splits = nondet_bool() ? lists[i] : nullptr;
#endif
#ifdef PTSMASK
    r[i]->owner = (i > 0) ? r[i - 1] : nullptr;                                                       // a merged-away record points at the ring it went into
#else
    r[i]->owner = (i > 0 && nondet_bool()) ? r[nd_int(0, i - 1)] : nullptr;                             // owners are acyclic (C04.c)
#endif
    int m = nd_int(0, 2); r[i]->recursive_split = m == 0 ? nullptr : m == 1 ? o : r[(i + 1) % CN];      // marks left by earlier searches
  }
  OutRec* owner0 = nondet_bool() ? r[nd_int(0, CN - 1)] : nullptr; o->owner = owner0;
  bool res = c.CheckSplitOwner(o, lists[0]);
  if (res) { VA(o->owner && o->owner != o && o->owner->pts != nullptr); bool is_r = false; for (int i = 0; i < CN; ++i) if (o->owner == r[i]) is_r = true; VA(is_r); }
  else VA(o->owner == owner0);
  verif_reach();
}

// C04: the owner CheckSplitOwner installs is the INNERMOST containing ring. Split graph: r0 lists r1, r1 lists r2 (each a piece split
// off the previous one and lying inside it), all three alive; containment verdicts are arbitrary but consistent with that nesting
// (inside r2 => inside r1 => inside r0). Expected owner: the deepest record containing the searching ring, none if none does.
static OutPt* g_in_rings[3]; static bool g_inside[3];
extern "C" __attribute__((noinline)) bool stub_checkbounds_live(ClipperBase* s, OutRec* r) { return r->pts != nullptr; }
extern "C" __attribute__((noinline)) bool stub_p1inp2_tab(OutPt* a, OutPt* b) { for (int i = 0; i < 3; ++i) if (b == g_in_rings[i]) return g_inside[i]; VA(false); return false; }
extern "C" void harness_checksplitowner_innermost() {
  Clipper64& c = *new Clipper64();
  OutRec* o = new OutRec(); o->pts = new OutPt(Point64((int64_t)0, (int64_t)0), o);
  OutRec* r[3]; OutRecList* lists[3];
  for (int i = 0; i < 3; ++i) { r[i] = new OutRec(); r[i]->pts = new OutPt(Point64((int64_t)i, (int64_t)1), r[i]); g_in_rings[i] = r[i]->pts; }
  for (int i = 0; i < 3; ++i) { lists[i] = new OutRecList((size_t)1, (OutRec*)nullptr); (*lists[i])[0] = r[(i + 1) % 3]; }
  r[0]->splits = lists[0]; r[1]->splits = lists[1]; r[2]->splits = nullptr;
  r[1]->owner = r[0]; r[2]->owner = r[1];
  for (int i = 0; i < 3; ++i) g_inside[i] = nondet_bool();
  ASSUME((!g_inside[2] || g_inside[1]) && (!g_inside[1] || g_inside[0]));
  OutRecList& top = *new OutRecList((size_t)1, (OutRec*)nullptr); top[0] = r[0];
  o->owner = nullptr;
  bool res = c.CheckSplitOwner(o, &top);
  OutRec* expect = g_inside[2] ? r[2] : g_inside[1] ? r[1] : g_inside[0] ? r[0] : nullptr;
  VA(res == (expect != nullptr));
  VA(o->owner == expect);
  verif_reach();
}

#ifndef R2N
#define R2N 2
#endif
// C01/C03 (contour bookkeeping): JoinOutrecPaths(e1, e2) splices the ring of e2 onto the ring of e1 at the tips the two maxima edges
// own. Rings: pts = front tip, pts->next = back tip, and following next from the back tip walks the polyline to the front tip.
// Afterwards e1's record holds  ring1 ++ ring2  (e1 front edge: its front tip is continued by ring2)  or  ring2 ++ ring1  (e1 back edge),
// consistently linked, with the surviving outer edges attached; e2's record is empty and owned by e1's.
static void mk_ring(OutRec* rec, OutPt** ops, int n, int64_t id0) {
  for (int i = 0; i < n; ++i) ops[i] = new OutPt(Point64(id0 + i, nd_range(0, 1000)), rec);
  // polyline order back -> front is ops[0], ops[1], .., ops[n-1]:  next walks it, the front tip's next is the back tip
  for (int i = 0; i < n; ++i) { ops[i]->next = ops[(i + 1) % n]; ops[i]->prev = ops[(i + n - 1) % n]; }
  rec->pts = ops[n - 1];
}
extern "C" void harness_joinoutrecpaths() {
  Clipper64& c = *new Clipper64();
  OutRec* r1 = c.NewOutRec(); OutRec* r2 = c.NewOutRec();
  OutPt* a[3]; OutPt* b[3]; mk_ring(r1, a, 3, 100); mk_ring(r2, b, R2N, 200);
  Vertex vtx; LocalMinima lm(&vtx, PathType::Subject, false);
  Active& f1 = *new Active(); Active& b1 = *new Active(); Active& f2 = *new Active(); Active& b2 = *new Active();
  f1.local_min = b1.local_min = f2.local_min = b2.local_min = &lm; vtx.flags = VertexFlags::Empty;
  f1.vertex_top = b1.vertex_top = f2.vertex_top = b2.vertex_top = &vtx;      // closed paths: not an open end
  f1.outrec = b1.outrec = r1; f2.outrec = b2.outrec = r2; r1->front_edge = &f1; r1->back_edge = &b1; r2->front_edge = &f2; r2->back_edge = &b2;
  bool e1_front = nondet_bool();
  Active& e1 = e1_front ? f1 : b1; Active& e2 = e1_front ? b2 : f2;            // the two maxima edges are on opposite sides (AddLocalMaxPoly)
  c.JoinOutrecPaths(e1, e2);
  OutPt* exp[6]; int n = 0;
  if (e1_front) { for (int i = 0; i < 3; ++i) exp[n++] = a[i]; for (int i = 0; i < R2N; ++i) exp[n++] = b[i]; }
  else { for (int i = 0; i < R2N; ++i) exp[n++] = b[i]; for (int i = 0; i < 3; ++i) exp[n++] = a[i]; }
  VA(r1->pts == exp[n - 1] && r1->pts->next == exp[0]);
  for (int i = 0; i < 3 + R2N; ++i) { VA(exp[i]->next == exp[(i + 1) % n]); VA(exp[(i + 1) % n]->prev == exp[i]); }
  VA(r2->pts == nullptr && r2->front_edge == nullptr && r2->back_edge == nullptr && r2->owner == r1);
  VA(e1.outrec == nullptr && e2.outrec == nullptr);
  if (e1_front) VA(r1->front_edge == &f2 && f2.outrec == r1 && r1->back_edge == &b1 && b1.outrec == r1);
  else VA(r1->back_edge == &b2 && b2.outrec == r1 && r1->front_edge == &f1 && f1.outrec == r1);
  verif_reach();
}

// C01/C13 (insertion order): for two edges that leave the same point p of the scanline upwards in different directions,
// IsValidAelOrder(resident, newcomer) holds exactly when the resident edge runs to the LEFT of the newcomer just above the scanline
// (slope comparison in exact integers, independent of the turning-direction formula the code uses).
#ifndef ALIM2
#define ALIM2 1024
#endif
extern "C" void harness_aelorder() {
  Point64 p(nd_range(-ALIM2, ALIM2), nd_range(-ALIM2, ALIM2));
  Point64 rt(nd_range(-ALIM2, ALIM2), nd_range(-ALIM2, ALIM2)), nt(nd_range(-ALIM2, ALIM2), nd_range(-ALIM2, ALIM2));
  ASSUME(rt.y < p.y && nt.y < p.y);                     // both edges go up (y decreases) from the scanline
  Active res, nw;
  res.top = rt; res.bot = Point64(nd_range(-ALIM2, ALIM2), nd_range(p.y, ALIM2 + 1)); res.curr_x = p.x;
  nw.bot = p; nw.top = nt; nw.curr_x = p.x;
  // x of each edge one unit of y above p, times the positive denominators: resident left  <=>  (rt.x-p.x)/(p.y-rt.y) < (nt.x-p.x)/(p.y-nt.y)
  int64_t lhs = (rt.x - p.x) * (p.y - nt.y), rhs = (nt.x - p.x) * (p.y - rt.y);
  ASSUME(lhs != rhs);                                    // different directions (the collinear tie-breaks are not covered)
  VA(IsValidAelOrder(res, nw) == (lhs < rhs));
  // and the order by curr_x when they differ
  Active far = nw; far.curr_x = nd_range(-ALIM2, ALIM2); ASSUME(far.curr_x != res.curr_x);
  VA(IsValidAelOrder(res, far) == (far.curr_x > res.curr_x));
  verif_reach();
}

// C05 (open ends at horizontals): DoHorizontal on the LAST, horizontal segment of an open path (its top vertex is the open end) must
// not interact with any edge beyond that end point: the neighbour in the AEL is crossed (IntersectEdges) exactly when it stands within
// the horizontal's extent, and the horizontal is then removed from the AEL. The neighbour is a closed, non-horizontal edge of the
// clip polygon; IntersectEdges, the join checks and the output operations are recorders.
static int g_ie_calls; static const Active* g_ie_a; static const Active* g_ie_b; static Point64 g_ie_pt; static int g_addout;
extern "C" __attribute__((noinline)) void stub_intersectedges_rec(ClipperBase* s, Active& e1, Active& e2, const Point64& pt) { g_ie_calls++; g_ie_a = &e1; g_ie_b = &e2; g_ie_pt = pt; }
extern "C" __attribute__((noinline)) void stub_checkjoin_rec(ClipperBase* s, Active& e, const Point64& pt, bool b) {}
extern "C" __attribute__((noinline)) OutPt* stub_addoutpt_rec(ClipperBase* s, const Active& e, const Point64& pt) { g_addout++; return nullptr; }
extern "C" __attribute__((noinline)) void stub_addtrialhorzjoin_rec(ClipperBase* s, OutPt* op) {}
extern "C" void harness_dohorizontal_open_end() {
  Clipper64& c = *new Clipper64();
  // open path v0 -> v1, horizontal; the sweep reaches it as a left-to-right or right-to-left horizontal ending at the open end v1
  Vertex v0, v1; int64_t y = nd_range(-1000, 1000);
  v0.pt = Point64(nd_range(-1000, 1000), y); v1.pt = Point64(nd_range(-1000, 1000), y); ASSUME(v0.pt.x != v1.pt.x);
  v0.next = &v1; v0.prev = &v1; v1.next = &v0; v1.prev = &v0;
  v0.flags = VertexFlags::OpenStart | VertexFlags::LocalMin; v1.flags = VertexFlags::OpenEnd | VertexFlags::LocalMax;
  LocalMinima lm_open(&v0, PathType::Subject, true);
  Active& horz = *new Active(); horz.bot = v0.pt; horz.top = v1.pt; horz.curr_x = v0.pt.x; horz.vertex_top = &v1; horz.local_min = &lm_open; horz.wind_dx = 1;
  horz.dx = v1.pt.x > v0.pt.x ? -1.7976931348623157e308 : 1.7976931348623157e308;    // SetDx of a horizontal
  horz.outrec = nullptr;                                                          // cold: no output operations needed
  // a closed clip edge standing somewhere on the scanline, further along the AEL
  Vertex w0, w1, w2; w0.pt = Point64(nd_range(-1000, 1000), y + 50); w1.pt = Point64(nd_range(-1000, 1000), y - 50); w2.pt = Point64(w1.pt.x + 7, y - 90);
  w0.next = &w1; w1.next = &w2; w2.next = &w0; w0.prev = &w2; w1.prev = &w0; w2.prev = &w1; w0.flags = VertexFlags::LocalMin; w1.flags = VertexFlags::Empty; w2.flags = VertexFlags::LocalMax;
  LocalMinima lm_clip(&w0, PathType::Clip, false);
  Active& e = *new Active(); e.bot = w0.pt; e.top = w1.pt; e.vertex_top = &w1; e.local_min = &lm_clip; e.wind_dx = 1; e.outrec = nullptr;
  e.curr_x = nd_range(-1000, 1000); e.dx = 0.0;
  bool ltr = v1.pt.x > v0.pt.x;
  // AEL order is by curr_x: the clip edge is on the side the horizontal heads to, at or beyond the horizontal's start
  if (ltr) { ASSUME(e.curr_x >= horz.curr_x); c.actives_ = &horz; horz.prev_in_ael = nullptr; horz.next_in_ael = &e; e.prev_in_ael = &horz; e.next_in_ael = nullptr; }
  else { ASSUME(e.curr_x <= horz.curr_x); c.actives_ = &e; e.prev_in_ael = nullptr; e.next_in_ael = &horz; horz.prev_in_ael = &e; horz.next_in_ael = nullptr; }
  ASSUME(e.curr_x != v1.pt.x);                      // (an edge standing exactly on the end point is decided by the out-slope rule: not covered)
  g_ie_calls = 0;
  c.DoHorizontal(horz);
  bool within = ltr ? e.curr_x < v1.pt.x : e.curr_x > v1.pt.x;
  VA(g_ie_calls == (within ? 1 : 0));
  if (within) { VA(g_ie_pt.x == e.curr_x && g_ie_pt.y == y); VA((ltr ? g_ie_a : g_ie_b) == &horz && (ltr ? g_ie_b : g_ie_a) == &e); }
  // the finished open horizontal has left the AEL, the clip edge stays
  VA(c.actives_ == &e && e.prev_in_ael == nullptr && e.next_in_ael == nullptr);
  verif_reach();
}
