// Whole-pipeline harnesses on concrete geometry with symbolic non-geometric state (C12.a, C14 part 2, C04.e).
#include "src/clipper.engine.cpp"
#include "clipper2/clipper.h"
#include "harness.h"
using namespace Clipper2Lib;

static Point64 P(int64_t x, int64_t y) { return Point64(x, y); }
static Paths64 subj0() { Paths64 s(1); s[0].push_back(P(0, 0)); s[0].push_back(P(100, 10)); s[0].push_back(P(20, 90)); return s; }
static Paths64 clip0() { Paths64 s(1); s[0].push_back(P(10, 50)); s[0].push_back(P(90, -5)); s[0].push_back(P(80, 95)); return s; }   // its local minimum (y=95) sorts before the subject's (y=90)
static bool same_paths(const Paths64& a, const Paths64& b) {
  if (a.size() != b.size()) return false;
  for (size_t i = 0; i < a.size(); ++i) { if (a[i].size() != b[i].size()) return false; for (size_t j = 0; j < a[i].size(); ++j) if (a[i][j] != b[i][j]) return false; }
  return true;
}
static void havoc_globals() {
  // every writable library global (list cross-checked against the IR scan of C14.a): contents become arbitrary
  const_cast<Point64&>(InvalidPoint64) = Point64(nondet_i64(), nondet_i64());
  const_cast<PointD&>(InvalidPointD) = PointD(nondet_double(), nondet_double());
  const_cast<Rect64&>(InvalidRect64) = Rect64(nondet_i64(), nondet_i64(), nondet_i64(), nondet_i64());
  const_cast<RectD&>(InvalidRectD) = RectD(nondet_double(), nondet_double(), nondet_double(), nondet_double());
}

// C12.a: AddSubject, Execute, (scratch state havocked), AddClip, Execute  ==  fresh object with both path sets
extern "C" void harness_history_vs_fresh() {
  Clipper64 c;
  c.AddSubject(subj0());
  Paths64 s0; bool ok0 = c.Execute(ClipType::Union, FillRule::EvenOdd, s0);
  VA(ok0 && s0.size() == 1);
  // what Reset()/CleanUp() must make irrelevant is made arbitrary
  c.cliptype_ = (ClipType)nd_int(0, 4); c.fillrule_ = (FillRule)nd_int(0, 3); c.bot_y_ = nondet_i64();
  c.using_polytree_ = nondet_bool(); c.succeeded_ = nondet_bool(); c.sel_ = nondet_bool() ? (Active*)nullptr : (Active*)(uintptr_t)8;
  havoc_globals();
  VA(c.actives_ == nullptr && c.outrec_list_.empty() && c.intersect_nodes_.empty() && c.scanline_list_.empty() && c.horz_seg_list_.empty() && c.horz_join_list_.empty());
  c.AddClip(clip0());
  Paths64 s1; bool ok1 = c.Execute(ClipType::Intersection, FillRule::NonZero, s1);
  Clipper64 f; f.AddSubject(subj0()); f.AddClip(clip0());
  Paths64 s2; bool ok2 = f.Execute(ClipType::Intersection, FillRule::NonZero, s2);
  VA(ok1 && ok2);
  VA(s2.size() == 1 && s2[0].size() >= 3);
  VA(same_paths(s1, s2));
  // executing again on the used object is bit-identical
  Paths64 s3; VA(c.Execute(ClipType::Intersection, FillRule::NonZero, s3)); VA(same_paths(s1, s3));
  verif_reach();
}

// C12: Clear() followed by new paths behaves like a fresh object
extern "C" void harness_clear_vs_fresh() {
  Clipper64 c;
  c.AddSubject(clip0()); c.AddOpenSubject(subj0());
  Paths64 s0, o0; c.Execute(ClipType::Union, FillRule::NonZero, s0, o0);
  c.Clear();
  VA(c.minima_list_.empty() && c.vertex_lists_.empty() && !c.has_open_paths_ && !c.minima_list_sorted_);
  c.AddSubject(subj0()); c.AddClip(clip0());
  Paths64 s1; VA(c.Execute(ClipType::Intersection, FillRule::NonZero, s1));
  Clipper64 f; f.AddSubject(subj0()); f.AddClip(clip0());
  Paths64 s2; VA(f.Execute(ClipType::Intersection, FillRule::NonZero, s2));
  VA(same_paths(s1, s2));
  verif_reach();
}

// C04.e: tree execution carries the same closed paths as paths execution, for both option flags
extern "C" void harness_tree_vs_paths() {
#ifdef FLAGS
  bool rev = (FLAGS & 1) != 0, pres = (FLAGS & 2) != 0;    // one obligation per flag combination (the flags steer the clean-up code)
#else
  bool rev = nondet_bool(), pres = nondet_bool();
#endif
  Paths64 outer(1), hole(1);
  outer[0].push_back(P(0, 0)); outer[0].push_back(P(100, 0)); outer[0].push_back(P(100, 100)); outer[0].push_back(P(0, 100));
  hole[0].push_back(P(20, 20)); hole[0].push_back(P(70, 25)); hole[0].push_back(P(40, 80));
  Clipper64 a; a.ReverseSolution(rev); a.PreserveCollinear(pres); a.AddSubject(outer); a.AddClip(hole);
  Paths64 sp; VA(a.Execute(ClipType::Difference, FillRule::NonZero, sp));
  Clipper64 b; b.ReverseSolution(rev); b.PreserveCollinear(pres); b.AddSubject(outer); b.AddClip(hole);
  PolyTree64 t; Paths64 open; VA(b.Execute(ClipType::Difference, FillRule::NonZero, t, open));
  VA(sp.size() == 2);
  VA(t.Count() == 1); ASSUME(t.Count() == 1);
  const PolyPath64* o = t[0];
  VA(o->Count() == 1); ASSUME(o->Count() == 1);
  const PolyPath64* h = (*o)[0];
  VA(h->Count() == 0 && !o->IsHole() && h->IsHole());
  // same two rings as the paths solution (outer first there as well)
  Paths64 tp; tp.push_back(o->Polygon()); tp.push_back(h->Polygon());
  VA(same_paths(tp, sp) || (sp[0] == tp[1] && sp[1] == tp[0]));
  // orientation: outer positive, hole negative (negated by ReverseSolution); exact shoelace sign
  int64_t ao = 0, ah = 0;
  for (size_t i = 0; i < 8; ++i) { const Path64& q = o->Polygon(); if (i >= q.size()) break; const Point64& u = q[i]; const Point64& w = q[(i + 1) % q.size()]; ao += u.x * w.y - w.x * u.y; }
  for (size_t i = 0; i < 8; ++i) { const Path64& q = h->Polygon(); if (i >= q.size()) break; const Point64& u = q[i]; const Point64& w = q[(i + 1) % q.size()]; ah += u.x * w.y - w.x * u.y; }
  VA(rev ? (ao < 0 && ah > 0) : (ao > 0 && ah < 0));
  verif_reach();
}

// C12: a clipper that has already executed, then receives shared reusable data, behaves like a fresh one given the same data
extern "C" void harness_reuse_vs_fresh() {
  ReuseableDataContainer64 rd; rd.AddPaths(clip0(), PathType::Clip, false);      // clip0's minimum sorts before subj0's
  Clipper64 c;
  c.AddSubject(subj0());
  Paths64 s0; VA(c.Execute(ClipType::Union, FillRule::NonZero, s0));
  c.AddReuseableData(rd);
  Paths64 s1; bool ok1 = c.Execute(ClipType::Intersection, FillRule::NonZero, s1);
  Clipper64 f; f.AddSubject(subj0()); f.AddReuseableData(rd);
  Paths64 s2; bool ok2 = f.Execute(ClipType::Intersection, FillRule::NonZero, s2);
  Clipper64 g; g.AddSubject(subj0()); g.AddClip(clip0());
  Paths64 s3; bool ok3 = g.Execute(ClipType::Intersection, FillRule::NonZero, s3);
  VA(ok1 && ok2 && ok3);
  VA(s3.size() == 1 && s3[0].size() >= 3);
  VA(same_paths(s1, s3)); VA(same_paths(s2, s3));
  // the shared container is read-only during execution
  VA(rd.minima_list_.size() == 1 && rd.vertex_lists_.size() == 1);
  verif_reach();
}

#ifndef OHE
#define OHE 0
#endif
// C05: an open subject that ENDS in a horizontal segment strictly inside the clip polygon, with clip edges further along the same
// scanline (whole pipeline, concrete geometry; clip type Intersection, fill rule symbolic; ReverseSolution/PreserveCollinear symbolic).
// The pieces must lie on the subject: exactly the subject itself comes back (it lies wholly inside the clip square), it does not run
// on to the clip boundary, and the closed solution is empty.
extern "C" void harness_open_horizontal_end() {
  Paths64 open_subj(1), clip(1);
#if OHE == 0     // a single horizontal segment
  open_subj[0].push_back(P(20, 50)); open_subj[0].push_back(P(60, 50));
  const int n_in = 2;
#else            // rises, then ends with a horizontal segment at the top of its bound
  open_subj[0].push_back(P(30, 80)); open_subj[0].push_back(P(20, 50)); open_subj[0].push_back(P(60, 50));
  const int n_in = 3;
#endif
  clip[0].push_back(P(0, 0)); clip[0].push_back(P(100, 0)); clip[0].push_back(P(100, 100)); clip[0].push_back(P(0, 100));
  Clipper64 c; c.ReverseSolution(nondet_bool()); c.PreserveCollinear(nondet_bool());
  c.AddOpenSubject(open_subj); c.AddClip(clip);
#ifdef OHE_FR     // the fill rule steers the sweep: one obligation per rule (symbolic, no verdict in 25 min)
  FillRule fr = (FillRule)OHE_FR;
#else
  FillRule fr = (FillRule)nd_int(0, 3);
  ASSUME(fr != FillRule::Negative);      // the square is positively oriented: with Negative nothing is inside the clip region
#endif
  Paths64 closed, open;
  VA(c.Execute(ClipType::Intersection, fr, closed, open));
  VA(closed.empty());
  VA(open.size() == 1); ASSUME(open.size() == 1);
  VA((int)open[0].size() == n_in); ASSUME((int)open[0].size() == n_in);
  bool fwd = true, bwd = true;
  for (int i = 0; i < n_in; ++i) { if (!(open[0][i] == open_subj[0][i])) fwd = false; if (!(open[0][i] == open_subj[0][n_in - 1 - i])) bwd = false; }
  VA(fwd || bwd);
  verif_reach();
}
