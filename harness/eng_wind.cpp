// Winding-number mechanisms of the sweep: IsContributingClosed/Open, SetWindCountForClosedPathEdge/OpenPathEdge.
// Used by C01 (a,b), C05 (a,b), C13 (c).
#include "src/clipper.engine.cpp"
#include "harness.h"
using namespace Clipper2Lib;

// ---------- specification (written from the property statement, not from the code) ----------
static inline bool fill(FillRule r, int w) {
  switch (r) {
    case FillRule::EvenOdd: return (w & 1) != 0;
    case FillRule::NonZero: return w != 0;
    case FillRule::Positive: return w > 0;
    default: return w < 0;
  }
}
static inline bool inres(ClipType ct, bool s, bool c) {
  switch (ct) {
    case ClipType::Intersection: return s && c;
    case ClipType::Union: return s || c;
    case ClipType::Difference: return s && !c;
    case ClipType::Xor: return s != c;
    default: return false;
  }
}
// representation invariant (I): what a closed edge's counters must be, given the winding number `wl` of its own
// path type in the region on its left, the other type's winding number `w2` there, and its direction d.
static inline void set_counts(Active& e, FillRule r, int wl, int w2, int d) {
  e.wind_dx = d;
  if (r == FillRule::EvenOdd) { e.wind_cnt = nondet_bool() ? 1 : -1; e.wind_cnt2 = (w2 & 1); }   // EvenOdd: only |wind_cnt| == 1 is meaningful (IntersectEdges swaps the signs)
  else { e.wind_cnt = ((int64_t)wl * d >= 0) ? wl + d : wl; e.wind_cnt2 = w2; }
}
static inline bool counts_ok(const Active& e, FillRule r, int wl, int w2) {
  if (r == FillRule::EvenOdd) return (e.wind_cnt == 1 || e.wind_cnt == -1) && e.wind_cnt2 == (w2 & 1);
  const int d = e.wind_dx;
  return e.wind_cnt == (((int64_t)wl * d >= 0) ? wl + d : wl) && e.wind_cnt2 == w2;
}
static const int W = 1000000;
static inline FillRule nd_rule() { return (FillRule)nd_int(0, 3); }
static inline ClipType nd_ct() { return (ClipType)nd_int(1, 4); }
static inline int nd_dir() { return nondet_bool() ? 1 : -1; }

static Vertex g_v[8];
static LocalMinima* mk_lm(PathType pt, bool open) { return new LocalMinima(&g_v[0], pt, open); }

// C01.a: IsContributingClosed(e) <=> the result-region membership differs across e
extern "C" void harness_contrib_closed() {
  ClipperBase& c = *new Clipper64();
  c.fillrule_ = nd_rule(); c.cliptype_ = nd_ct();
  PathType pt = nondet_bool() ? PathType::Clip : PathType::Subject;
  int wl = nd_int(-W, W), w2 = nd_int(-W, W), d = nd_dir();
  Active& e = *new Active();
  e.local_min = mk_lm(pt, false);
  set_counts(e, c.fillrule_, wl, w2, d);
  bool got = c.IsContributingClosed(e);
  // own type on the left/right of e, other type the same on both sides
  bool ownL = fill(c.fillrule_, wl), ownR = fill(c.fillrule_, wl + d), oth = fill(c.fillrule_, w2);
  bool inL = pt == PathType::Subject ? inres(c.cliptype_, ownL, oth) : inres(c.cliptype_, oth, ownL);
  bool inR = pt == PathType::Subject ? inres(c.cliptype_, ownR, oth) : inres(c.cliptype_, oth, ownR);
  VA(got == (inL != inR));
  verif_reach();
}

// C11/C01: ClipType::NoClip contributes nothing
extern "C" void harness_contrib_noclip() {
  ClipperBase& c = *new Clipper64();
  c.fillrule_ = nd_rule(); c.cliptype_ = ClipType::NoClip;
  Active& e = *new Active();
  e.local_min = mk_lm(nondet_bool() ? PathType::Clip : PathType::Subject, false);
  e.wind_cnt = nd_int(-W, W); e.wind_cnt2 = nd_int(-W, W); e.wind_dx = nd_dir();
  VA(!c.IsContributingClosed(e));
  verif_reach();
}

// C05.a: IsContributingOpen(e) <=> the open edge lies in the part the clip type keeps
extern "C" void harness_contrib_open() {
  ClipperBase& c = *new Clipper64();
  c.fillrule_ = nd_rule(); c.cliptype_ = nd_ct();
  int ws = nd_int(-W, W), wc = nd_int(-W, W);
  Active& e = *new Active();
  e.local_min = mk_lm(PathType::Subject, true);
  // for an open edge wind_cnt / wind_cnt2 are the closed-subject / clip winding numbers of the region it is in
  // (parities under EvenOdd)
  if (c.fillrule_ == FillRule::EvenOdd) { e.wind_cnt = ws & 1; e.wind_cnt2 = wc & 1; } else { e.wind_cnt = ws; e.wind_cnt2 = wc; }
  bool got = c.IsContributingOpen(e);
  bool inS = fill(c.fillrule_, ws), inC = fill(c.fillrule_, wc);
  bool want = c.cliptype_ == ClipType::Intersection ? inC : c.cliptype_ == ClipType::Union ? (!inS && !inC) : !inC;
  VA(got == want);
  verif_reach();
}

// C13.c: symmetries of the contribution table
extern "C" void harness_contrib_symmetry() {
  ClipperBase& c = *new Clipper64();
  FillRule r = nd_rule(); ClipType ct = nd_ct();
  c.fillrule_ = r; c.cliptype_ = ct;
  int wl = nd_int(-W, W), w2 = nd_int(-W, W), d = nd_dir();
  Active& e = *new Active(); Active& f = *new Active();
  bool isclip = nondet_bool();
  e.local_min = mk_lm(isclip ? PathType::Clip : PathType::Subject, false);
  set_counts(e, r, wl, w2, d);
  bool base = c.IsContributingClosed(e);
  // (1) subject <-> clip exchange: same decision for Intersection, Union, Xor
  f = e; f.local_min = mk_lm(isclip ? PathType::Subject : PathType::Clip, false);
  if (ct != ClipType::Difference) VA(c.IsContributingClosed(f) == base);
  // (2) reversing every path negates all winding numbers and directions; Positive <-> Negative, EvenOdd/NonZero fixed
  Active& g = *new Active();
  g.local_min = e.local_min;
  // region on the left of the reversed edge has winding -wl (own) and -w2 (other); its direction is -d
  FillRule r2 = r == FillRule::Positive ? FillRule::Negative : r == FillRule::Negative ? FillRule::Positive : r;
  set_counts(g, r2, -wl, -w2, -d);
  c.fillrule_ = r2;
  VA(c.IsContributingClosed(g) == base);
  verif_reach();
}

// ---------- AEL prefix of k closed/open edges with consistent counters ----------
#ifndef KMAX
#define KMAX 3
#endif
struct Ael { Active* e[KMAX + 1]; int ws[KMAX + 2]; int wc[KMAX + 2]; int k; };
// builds k edges e[0..k-1] linked left to right; region j is left of e[j]; region 0 is the unbounded region (0,0).
// each edge: symbolic type, direction, open flag; counters set from (I). Then e[k] is the new edge (counters zero).
static void build_ael(ClipperBase& c, Ael& a, bool new_is_open) {
  a.k = nd_int(0, KMAX);
  a.ws[0] = 0; a.wc[0] = 0;
  Active* prev = nullptr;
  for (int j = 0; j <= KMAX; ++j) {
    if (j > a.k) break;
    Active* e = new Active();
    a.e[j] = e;
    e->prev_in_ael = prev; if (prev) prev->next_in_ael = e; else c.actives_ = e;
    prev = e;
    if (j == a.k) break;
    bool isclip = nondet_bool(), open = nondet_bool();
    if (open) isclip = false;                       // only subjects can be open
    e->local_min = mk_lm(isclip ? PathType::Clip : PathType::Subject, open);
    int d = nd_dir();
    if (open) {
      e->wind_dx = d;                                // open edges do not separate regions
      a.ws[j + 1] = a.ws[j]; a.wc[j + 1] = a.wc[j];
    } else if (isclip) {
      set_counts(*e, c.fillrule_, a.wc[j], a.ws[j], d);
      a.wc[j + 1] = a.wc[j] + d; a.ws[j + 1] = a.ws[j];
    } else {
      set_counts(*e, c.fillrule_, a.ws[j], a.wc[j], d);
      a.ws[j + 1] = a.ws[j] + d; a.wc[j + 1] = a.wc[j];
    }
  }
}

// C01.b: SetWindCountForClosedPathEdge establishes (I) for an edge appended to an AEL prefix satisfying (I)
extern "C" void harness_setwind_closed() {
  ClipperBase& c = *new Clipper64();
  c.fillrule_ = nd_rule(); c.cliptype_ = nd_ct();
  Ael a; build_ael(c, a, false);
  Active& e = *a.e[a.k];
  bool isclip = nondet_bool();
  e.local_min = mk_lm(isclip ? PathType::Clip : PathType::Subject, false);
  e.wind_dx = nd_dir();
  c.SetWindCountForClosedPathEdge(e);
  int own = isclip ? a.wc[a.k] : a.ws[a.k], oth = isclip ? a.ws[a.k] : a.wc[a.k];
  VA(counts_ok(e, c.fillrule_, own, oth));
  verif_reach();
}

// C05.b: SetWindCountForOpenPathEdge gives the winding numbers of the region containing the open edge
extern "C" void harness_setwind_open() {
  ClipperBase& c = *new Clipper64();
  c.fillrule_ = nd_rule(); c.cliptype_ = nd_ct();
  Ael a; build_ael(c, a, true);
  Active& e = *a.e[a.k];
  e.local_min = mk_lm(PathType::Subject, true);
  e.wind_dx = nd_dir();
  c.SetWindCountForOpenPathEdge(e);
  if (c.fillrule_ == FillRule::EvenOdd) { VA(e.wind_cnt == (a.ws[a.k] & 1)); VA(e.wind_cnt2 == (a.wc[a.k] & 1)); }
  else { VA(e.wind_cnt == a.ws[a.k]); VA(e.wind_cnt2 == a.wc[a.k]); }
  // and the decision taken from them is the specified one
  bool inS = fill(c.fillrule_, a.ws[a.k]), inC = fill(c.fillrule_, a.wc[a.k]);
  bool want = c.cliptype_ == ClipType::Intersection ? inC : c.cliptype_ == ClipType::Union ? (!inS && !inC) : !inC;
  VA(c.IsContributingOpen(e) == want);
  verif_reach();
}

// ---------- C01.c: one IntersectEdges step preserves (I) and establishes (H) in the swapped order ----------------------------
// (H): a closed edge is hot exactly when result membership differs across it. The contour operations are replaced by
// recorders that apply only their effect on hotness: AddLocalMaxPoly closes both edges' contours (both become cold),
// AddLocalMinPoly opens one (both become hot), AddOutPt changes nothing; SwapOutrecs is the real code.
static OutRec* g_fresh;
static int g_maxpoly, g_minpoly, g_outpt;
extern "C" __attribute__((noinline)) OutPt* stub_maxpoly(ClipperBase* s, Active& e1, Active& e2, const Point64& pt) { g_maxpoly++; VA(e1.outrec && e2.outrec); e1.outrec = nullptr; e2.outrec = nullptr; return nullptr; }
extern "C" __attribute__((noinline)) OutPt* stub_minpoly(ClipperBase* s, Active& e1, Active& e2, const Point64& pt, bool is_new) {
  g_minpoly++; VA(!e1.outrec && !e2.outrec); e1.outrec = g_fresh; e2.outrec = g_fresh; g_fresh->front_edge = &e1; g_fresh->back_edge = &e2; return nullptr; }
extern "C" __attribute__((noinline)) OutPt* stub_addoutpt(ClipperBase* s, const Active& e, const Point64& pt) { g_outpt++; VA(e.outrec != nullptr); return nullptr; }

static inline bool inres2(ClipType ct, FillRule r, int ws, int wc) { return inres(ct, fill(r, ws), fill(r, wc)); }

extern "C" void harness_intersect_step() {
  ClipperBase& c = *new Clipper64();
  FillRule r = nd_rule(); ClipType ct = nd_ct();
  c.fillrule_ = r; c.cliptype_ = ct; c.has_open_paths_ = false;
  const int WW = 1000;
  int wsL = nd_int(-WW, WW), wcL = nd_int(-WW, WW);
  bool clip1 = nondet_bool(), clip2 = nondet_bool(); int d1 = nd_dir(), d2 = nd_dir();
  // regions: L | e1 | M | e2 | R   --->   L | e2 | M' | e1 | R
  int wsM = wsL + (clip1 ? 0 : d1), wcM = wcL + (clip1 ? d1 : 0);
  int wsR = wsM + (clip2 ? 0 : d2), wcR = wcM + (clip2 ? d2 : 0);
  int wsN = wsL + (clip2 ? 0 : d2), wcN = wcL + (clip2 ? d2 : 0);      // M'
  Active& e1 = *new Active(); Active& e2 = *new Active(); Active& other = *new Active();
  e1.local_min = mk_lm(clip1 ? PathType::Clip : PathType::Subject, false);
  e2.local_min = mk_lm(clip2 ? PathType::Clip : PathType::Subject, false);
  e1.next_in_ael = &e2; e2.prev_in_ael = &e1; c.actives_ = &e1;
  set_counts(e1, r, clip1 ? wcL : wsL, clip1 ? wsL : wcL, d1);
  set_counts(e2, r, clip2 ? wcM : wsM, clip2 ? wsM : wcM, d2);
  // (H) before the crossing
  bool inL = inres2(ct, r, wsL, wcL), inM = inres2(ct, r, wsM, wcM), inR = inres2(ct, r, wsR, wcR), inN = inres2(ct, r, wsN, wcN);
  bool hot1 = inL != inM, hot2 = inM != inR;
  OutRec* ra = new OutRec(); OutRec* rb = new OutRec(); g_fresh = new OutRec();
  ra->idx = 0; rb->idx = 1; g_fresh->idx = 2;
  bool same_rec = nondet_bool();            // two hot edges may bound the same contour (M inside, L and R outside or vice versa)
  if (hot1) { e1.outrec = ra; }
  if (hot2) { e2.outrec = (hot1 && same_rec) ? ra : rb; }
  // sides: within one contour the two bounding edges are on opposite sides; otherwise the partner is some other edge
  bool front1 = nondet_bool(), front2 = nondet_bool();
  if (hot1 && hot2 && same_rec) { ra->front_edge = front1 ? &e1 : &e2; ra->back_edge = front1 ? &e2 : &e1; }
  else {
    if (hot1) { ra->front_edge = front1 ? &e1 : &other; ra->back_edge = front1 ? &other : &e1; }
    if (hot2) { rb->front_edge = front2 ? &e2 : &other; rb->back_edge = front2 ? &other : &e2; }
  }
  Point64 pt(nd_range(-100, 100), nd_range(-100, 100));
  g_maxpoly = g_minpoly = g_outpt = 0;
  c.IntersectEdges(e1, e2, pt);
  // (I) in the swapped order
  VA(counts_ok(e2, r, clip2 ? wcL : wsL, clip2 ? wsL : wcL));
  VA(counts_ok(e1, r, clip1 ? wcN : wsN, clip1 ? wsN : wcN));
  // (H) in the swapped order
  VA((e2.outrec != nullptr) == (inL != inN));
  VA((e1.outrec != nullptr) == (inN != inR));
  // a vertex is emitted whenever a contour changes edge at the crossing (some edge's hotness changes), and never when no contour is involved
  bool hot2_after = inL != inN, hot1_after = inN != inR;
  int emitted = g_maxpoly + g_minpoly + g_outpt;
  if (hot1 != hot1_after || hot2 != hot2_after) VA(emitted > 0);
  if (!hot1 && !hot2 && !hot1_after && !hot2_after) VA(emitted == 0);
  verif_reach();
}

// ---------- C05.c: an open edge crossing a closed edge toggles its contribution exactly at result-region boundaries -----------
static bool contrib_open(ClipType ct, FillRule r, int ws, int wc) {
  bool inS = fill(r, ws), inC = fill(r, wc);
  return ct == ClipType::Intersection ? inC : ct == ClipType::Union ? (!inS && !inC) : !inC;
}
static int g_startopen;
extern "C" __attribute__((noinline)) OutPt* stub_startopen(ClipperBase* s, Active& e, const Point64& pt) { g_startopen++; VA(!e.outrec); e.outrec = g_fresh; g_fresh->is_open = true; g_fresh->front_edge = &e; return nullptr; }

extern "C" void harness_intersect_open_step() {
  ClipperBase& c = *new Clipper64();
  FillRule r = nd_rule(); ClipType ct = nd_ct();
  c.fillrule_ = r; c.cliptype_ = ct; c.has_open_paths_ = true;
  const int WW = 1000;
  int wsL = nd_int(-WW, WW), wcL = nd_int(-WW, WW);            // region left of the closed edge
  bool clipc = nondet_bool(); int dc = nd_dir();
  int wsR = wsL + (clipc ? 0 : dc), wcR = wcL + (clipc ? dc : 0);
  bool open_is_left = nondet_bool();                            // AEL order before the crossing: (open, closed) or (closed, open)
  Active& eo = *new Active(); Active& ec = *new Active(); Active& other = *new Active();
  g_v[0].pt = Point64((int64_t)1000, (int64_t)1000);            // local minimum vertex away from the crossing point
  eo.local_min = mk_lm(PathType::Subject, true); ec.local_min = mk_lm(clipc ? PathType::Clip : PathType::Subject, false);
  eo.wind_dx = nd_dir();
  set_counts(ec, r, clipc ? wcL : wsL, clipc ? wsL : wcL, dc);
  // (H) for the closed edge; the open edge is hot iff it contributes where it currently is
  bool c_hot = inres2(ct, r, wsL, wcL) != inres2(ct, r, wsR, wcR);
  int wsA = open_is_left ? wsL : wsR, wcA = open_is_left ? wcL : wcR, wsB = open_is_left ? wsR : wsL, wcB = open_is_left ? wcR : wcL;
  bool o_hot = contrib_open(ct, r, wsA, wcA);
  OutRec* ro = new OutRec(); OutRec* rc = new OutRec(); g_fresh = new OutRec(); ro->is_open = true;
  if (o_hot) { eo.outrec = ro; if (eo.wind_dx > 0) ro->front_edge = &eo; else ro->back_edge = &eo; }
  if (c_hot) { ec.outrec = rc; bool f = nondet_bool(); rc->front_edge = f ? &ec : &other; rc->back_edge = f ? &other : &ec; }
  if (open_is_left) { eo.next_in_ael = &ec; ec.prev_in_ael = &eo; c.actives_ = &eo; } else { ec.next_in_ael = &eo; eo.prev_in_ael = &ec; c.actives_ = &ec; }
  Point64 pt(nd_range(-100, 100), nd_range(-100, 100));
  g_outpt = 0; g_startopen = 0;
  if (open_is_left) c.IntersectEdges(eo, ec, pt); else c.IntersectEdges(ec, eo, pt);
  // the open edge is hot afterwards exactly when it contributes on the other side of the closed edge
  VA((eo.outrec != nullptr) == contrib_open(ct, r, wsB, wcB));
  // the closed edge is untouched
  VA((ec.outrec != nullptr) == c_hot);
  VA(counts_ok(ec, r, clipc ? wcL : wsL, clipc ? wsL : wcL));
  // a point is emitted iff the contribution changed
  VA((g_outpt + g_startopen == 1) == (o_hot != contrib_open(ct, r, wsB, wcB)));
  VA(g_outpt + g_startopen <= 1);
  verif_reach();
}
