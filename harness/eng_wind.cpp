// Winding-number mechanisms of the sweep: IsContributingClosed/Open, SetWindCountForClosedPathEdge/OpenPathEdge.
// Used by C01 (a,b), C05 (a,b), C13 (c).
#include "src/clipper.engine.cpp"
#include "harness.h"
using namespace Clipper2Lib;

// ---------- specification (written from the property statement, not from the code) ----------
static inline bool fill(FillRule r, int w) {
  switch (r) {
    case FillRule::EvenOdd: return (w & 1) != 0;
    case FillRule::NonZero: return w != 0;
    case FillRule::Positive: return w > 0;
    default: return w < 0;
  }
}
static inline bool inres(ClipType ct, bool s, bool c) {
  switch (ct) {
    case ClipType::Intersection: return s && c;
    case ClipType::Union: return s || c;
    case ClipType::Difference: return s && !c;
    case ClipType::Xor: return s != c;
    default: return false;
  }
}
// representation invariant (I): what a closed edge's counters must be, given the winding number `wl` of its own
// path type in the region on its left, the other type's winding number `w2` there, and its direction d.
static inline void set_counts(Active& e, FillRule r, int wl, int w2, int d) {
  e.wind_dx = d;
  if (r == FillRule::EvenOdd) { e.wind_cnt = d; e.wind_cnt2 = (w2 & 1); }
  else { e.wind_cnt = ((int64_t)wl * d >= 0) ? wl + d : wl; e.wind_cnt2 = w2; }
}
static inline bool counts_ok(const Active& e, FillRule r, int wl, int w2) {
  Active t; set_counts(t, r, wl, w2, e.wind_dx);
  return e.wind_cnt == t.wind_cnt && e.wind_cnt2 == t.wind_cnt2;
}
static const int W = 1000000;
static inline FillRule nd_rule() { return (FillRule)nd_int(0, 3); }
static inline ClipType nd_ct() { return (ClipType)nd_int(1, 4); }
static inline int nd_dir() { return nondet_bool() ? 1 : -1; }

static Vertex g_v[8];
static LocalMinima* mk_lm(PathType pt, bool open) { return new LocalMinima(&g_v[0], pt, open); }

// C01.a: IsContributingClosed(e) <=> the result-region membership differs across e
extern "C" void harness_contrib_closed() {
  ClipperBase& c = *new Clipper64();
  c.fillrule_ = nd_rule(); c.cliptype_ = nd_ct();
  PathType pt = nondet_bool() ? PathType::Clip : PathType::Subject;
  int wl = nd_int(-W, W), w2 = nd_int(-W, W), d = nd_dir();
  Active& e = *new Active();
  e.local_min = mk_lm(pt, false);
  set_counts(e, c.fillrule_, wl, w2, d);
  bool got = c.IsContributingClosed(e);
  // own type on the left/right of e, other type the same on both sides
  bool ownL = fill(c.fillrule_, wl), ownR = fill(c.fillrule_, wl + d), oth = fill(c.fillrule_, w2);
  bool inL = pt == PathType::Subject ? inres(c.cliptype_, ownL, oth) : inres(c.cliptype_, oth, ownL);
  bool inR = pt == PathType::Subject ? inres(c.cliptype_, ownR, oth) : inres(c.cliptype_, oth, ownR);
  VA(got == (inL != inR));
  verif_reach();
}

// C11/C01: ClipType::NoClip contributes nothing
extern "C" void harness_contrib_noclip() {
  ClipperBase& c = *new Clipper64();
  c.fillrule_ = nd_rule(); c.cliptype_ = ClipType::NoClip;
  Active& e = *new Active();
  e.local_min = mk_lm(nondet_bool() ? PathType::Clip : PathType::Subject, false);
  e.wind_cnt = nd_int(-W, W); e.wind_cnt2 = nd_int(-W, W); e.wind_dx = nd_dir();
  VA(!c.IsContributingClosed(e));
  verif_reach();
}

// C05.a: IsContributingOpen(e) <=> the open edge lies in the part the clip type keeps
extern "C" void harness_contrib_open() {
  ClipperBase& c = *new Clipper64();
  c.fillrule_ = nd_rule(); c.cliptype_ = nd_ct();
  int ws = nd_int(-W, W), wc = nd_int(-W, W);
  Active& e = *new Active();
  e.local_min = mk_lm(PathType::Subject, true);
  // for an open edge wind_cnt / wind_cnt2 are the closed-subject / clip winding numbers of the region it is in
  // (parities under EvenOdd)
  if (c.fillrule_ == FillRule::EvenOdd) { e.wind_cnt = ws & 1; e.wind_cnt2 = wc & 1; } else { e.wind_cnt = ws; e.wind_cnt2 = wc; }
  bool got = c.IsContributingOpen(e);
  bool inS = fill(c.fillrule_, ws), inC = fill(c.fillrule_, wc);
  bool want = c.cliptype_ == ClipType::Intersection ? inC : c.cliptype_ == ClipType::Union ? (!inS && !inC) : !inC;
  VA(got == want);
  verif_reach();
}

// C13.c: symmetries of the contribution table
extern "C" void harness_contrib_symmetry() {
  ClipperBase& c = *new Clipper64();
  FillRule r = nd_rule(); ClipType ct = nd_ct();
  c.fillrule_ = r; c.cliptype_ = ct;
  int wl = nd_int(-W, W), w2 = nd_int(-W, W), d = nd_dir();
  Active& e = *new Active(); Active& f = *new Active();
  bool isclip = nondet_bool();
  e.local_min = mk_lm(isclip ? PathType::Clip : PathType::Subject, false);
  set_counts(e, r, wl, w2, d);
  bool base = c.IsContributingClosed(e);
  // (1) subject <-> clip exchange: same decision for Intersection, Union, Xor
  f = e; f.local_min = mk_lm(isclip ? PathType::Subject : PathType::Clip, false);
  if (ct != ClipType::Difference) VA(c.IsContributingClosed(f) == base);
  // (2) reversing every path negates all winding numbers and directions; Positive <-> Negative, EvenOdd/NonZero fixed
  Active& g = *new Active();
  g.local_min = e.local_min;
  // region on the left of the reversed edge has winding -wl (own) and -w2 (other); its direction is -d
  FillRule r2 = r == FillRule::Positive ? FillRule::Negative : r == FillRule::Negative ? FillRule::Positive : r;
  set_counts(g, r2, -wl, -w2, -d);
  c.fillrule_ = r2;
  VA(c.IsContributingClosed(g) == base);
  verif_reach();
}

// ---------- AEL prefix of k closed/open edges with consistent counters ----------
#ifndef KMAX
#define KMAX 3
#endif
struct Ael { Active* e[KMAX + 1]; int ws[KMAX + 2]; int wc[KMAX + 2]; int k; };
// builds k edges e[0..k-1] linked left to right; region j is left of e[j]; region 0 is the unbounded region (0,0).
// each edge: symbolic type, direction, open flag; counters set from (I). Then e[k] is the new edge (counters zero).
static void build_ael(ClipperBase& c, Ael& a, bool new_is_open) {
  a.k = nd_int(0, KMAX);
  a.ws[0] = 0; a.wc[0] = 0;
  Active* prev = nullptr;
  for (int j = 0; j <= KMAX; ++j) {
    if (j > a.k) break;
    Active* e = new Active();
    a.e[j] = e;
    e->prev_in_ael = prev; if (prev) prev->next_in_ael = e; else c.actives_ = e;
    prev = e;
    if (j == a.k) break;
    bool isclip = nondet_bool(), open = nondet_bool();
    if (open) isclip = false;                       // only subjects can be open
    e->local_min = mk_lm(isclip ? PathType::Clip : PathType::Subject, open);
    int d = nd_dir();
    if (open) {
      e->wind_dx = d;                                // open edges do not separate regions
      a.ws[j + 1] = a.ws[j]; a.wc[j + 1] = a.wc[j];
    } else if (isclip) {
      set_counts(*e, c.fillrule_, a.wc[j], a.ws[j], d);
      a.wc[j + 1] = a.wc[j] + d; a.ws[j + 1] = a.ws[j];
    } else {
      set_counts(*e, c.fillrule_, a.ws[j], a.wc[j], d);
      a.ws[j + 1] = a.ws[j] + d; a.wc[j + 1] = a.wc[j];
    }
  }
}

// C01.b: SetWindCountForClosedPathEdge establishes (I) for an edge appended to an AEL prefix satisfying (I)
extern "C" void harness_setwind_closed() {
  ClipperBase& c = *new Clipper64();
  c.fillrule_ = nd_rule(); c.cliptype_ = nd_ct();
  Ael a; build_ael(c, a, false);
  Active& e = *a.e[a.k];
  bool isclip = nondet_bool();
  e.local_min = mk_lm(isclip ? PathType::Clip : PathType::Subject, false);
  e.wind_dx = nd_dir();
  c.SetWindCountForClosedPathEdge(e);
  int own = isclip ? a.wc[a.k] : a.ws[a.k], oth = isclip ? a.ws[a.k] : a.wc[a.k];
  VA(counts_ok(e, c.fillrule_, own, oth));
  verif_reach();
}

// C05.b: SetWindCountForOpenPathEdge gives the winding numbers of the region containing the open edge
extern "C" void harness_setwind_open() {
  ClipperBase& c = *new Clipper64();
  c.fillrule_ = nd_rule(); c.cliptype_ = nd_ct();
  Ael a; build_ael(c, a, true);
  Active& e = *a.e[a.k];
  e.local_min = mk_lm(PathType::Subject, true);
  e.wind_dx = nd_dir();
  c.SetWindCountForOpenPathEdge(e);
  if (c.fillrule_ == FillRule::EvenOdd) { VA(e.wind_cnt == (a.ws[a.k] & 1)); VA(e.wind_cnt2 == (a.wc[a.k] & 1)); }
  else { VA(e.wind_cnt == a.ws[a.k]); VA(e.wind_cnt2 == a.wc[a.k]); }
  // and the decision taken from them is the specified one
  bool inS = fill(c.fillrule_, a.ws[a.k]), inC = fill(c.fillrule_, a.wc[a.k]);
  bool want = c.cliptype_ == ClipType::Intersection ? inC : c.cliptype_ == ClipType::Union ? (!inS && !inC) : !inC;
  VA(c.IsContributingOpen(e) == want);
  verif_reach();
}
