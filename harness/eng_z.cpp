// C15: USINGZ build - the x,y solution does not depend on Z values / callback, and every solution vertex's Z is accounted for.
// Geometry is concrete (listed), every Z label, DefaultZ and every value the callback assigns is symbolic.
#include "src/clipper.engine.cpp"
#include "harness.h"
using namespace Clipper2Lib;
#ifndef USINGZ
#error "this harness is for the USINGZ configuration"
#endif
#ifndef GEOM
#define GEOM 0
#endif
struct CB { int64_t x, y, z; };
static CB g_cb[16]; static int g_ncb; static int64_t g_defz;
static void zcb(const Point64& e1bot, const Point64& e1top, const Point64& e2bot, const Point64& e2top, Point64& pt) {
  int k = g_ncb++; VA(k < 16); ASSUME(k < 16);
  // on entry the point carries the z of an edge end point it coincides with, else DefaultZ
  bool at_end = (pt == e1bot) || (pt == e1top) || (pt == e2bot) || (pt == e2top);
  if (at_end) VA((pt == e1bot && pt.z == e1bot.z) || (pt == e1top && pt.z == e1top.z) || (pt == e2bot && pt.z == e2bot.z) || (pt == e2top && pt.z == e2top.z));
  else VA(pt.z == g_defz);
  if (nondet_bool()) pt.z = nondet_i64();       // the user callback may assign a value or leave the preset one
  g_cb[k].x = pt.x; g_cb[k].y = pt.y; g_cb[k].z = pt.z;
}
static Point64 P(int64_t x, int64_t y) { return Point64(x, y, nondet_i64()); }

extern "C" void harness_z_accounting() {
  Paths64 subj(1), clip(1);
#if GEOM == 2   // two overlapping SUBJECT triangles and a distant clip: Difference (same-type crossings, local minima at crossings)
  subj.resize(2);
  subj[0].push_back(P(0, 0)); subj[0].push_back(P(100, 10)); subj[0].push_back(P(20, 90));
  subj[1].push_back(P(10, 50)); subj[1].push_back(P(90, -5)); subj[1].push_back(P(80, 85));
  clip[0].push_back(P(200, 200)); clip[0].push_back(P(220, 200)); clip[0].push_back(P(210, 220));
#elif GEOM == 3   // needle triangles on a small grid: rounding makes two subject edges join, and the joined pair is split again at a crossing (ClipperBase::Split)
  subj[0].push_back(P(26, 3)); subj[0].push_back(P(1, 16)); subj[0].push_back(P(29, 4));
  clip[0].push_back(P(16, 9)); clip[0].push_back(P(20, 21)); clip[0].push_back(P(14, 1));
#elif GEOM == 4   // 5-gons on a small grid: a rounded crossing lands exactly on a neighbouring edge, which is joined there (CheckJoinLeft/Right)
  subj[0].push_back(P(29, 37)); subj[0].push_back(P(17, 26)); subj[0].push_back(P(18, 46)); subj[0].push_back(P(23, 6)); subj[0].push_back(P(13, 42));
  clip[0].push_back(P(43, 14)); clip[0].push_back(P(21, 38)); clip[0].push_back(P(15, 2)); clip[0].push_back(P(50, 36)); clip[0].push_back(P(4, 17));
#elif GEOM == 0   // two triangles crossing in general position: 6 crossings... (intersection is a hexagon-like polygon)
  subj[0].push_back(P(0, 0)); subj[0].push_back(P(100, 10)); subj[0].push_back(P(20, 90));
  clip[0].push_back(P(10, 50)); clip[0].push_back(P(90, -5)); clip[0].push_back(P(80, 85));
#else           // nested squares sharing no edges: no intersections, no callback
  subj[0].push_back(P(0, 0)); subj[0].push_back(P(100, 0)); subj[0].push_back(P(100, 100)); subj[0].push_back(P(0, 100));
  clip[0].push_back(P(10, 10)); clip[0].push_back(P(60, 12)); clip[0].push_back(P(50, 70));
#endif
  bool with_cb = nondet_bool();
  Clipper64 c;
  c.DefaultZ = nondet_i64(); g_defz = c.DefaultZ;
  if (!with_cb) ASSUME(c.DefaultZ == 0);      // without a callback DefaultZ is never consulted: new vertices keep the point default (0)
  if (with_cb) c.SetZCallback(zcb);
  c.AddSubject(subj); c.AddClip(clip);
  Paths64 sol;
  bool ok = c.Execute((GEOM == 2 || GEOM == 3) ? ClipType::Difference : ClipType::Intersection, FillRule::NonZero, sol);
  VA(ok);
  VA(sol.size() == 1); ASSUME(sol.size() == 1);
  const Path64& s = sol[0];
  VA((int64_t)s.size() == (int64_t)EXPECT_2);
  for (size_t i = 0; i < 16; ++i) {
    if (i >= s.size()) break;
    const Point64& v = s[i];
    bool is_input = false, z_from_input = false;
    for (int k = 0; k < 3; ++k) { if (k == 2 && subj.size() < 2) break; const Path64& in = k == 0 ? subj[0] : k == 1 ? clip[0] : subj[1]; for (size_t j = 0; j < in.size(); ++j) if (in[j].x == v.x && in[j].y == v.y) { is_input = true; if (in[j].z == v.z) z_from_input = true; } }
    bool from_cb = false;
    for (int k = 0; k < 16; ++k) { if (k >= g_ncb) break; if (g_cb[k].x == v.x && g_cb[k].y == v.y && g_cb[k].z == v.z) from_cb = true; }
    // (without a callback a crossing that rounds onto an input vertex location is still a new vertex: default Z)
    if (is_input) VA(z_from_input || from_cb || (!with_cb && v.z == c.DefaultZ));
    else if (with_cb) VA(from_cb);
    else VA(v.z == c.DefaultZ);
  }
  if (!with_cb) VA(g_ncb == 0);
  // x,y do not depend on the Z labels: the vertex multiset is the concrete one of the plain build (checked natively by the self-test)
  int64_t sx = 0, sy = 0; for (size_t i = 0; i < 16; ++i) { if (i >= s.size()) break; sx += s[i].x; sy += s[i].y; }
  out_i64(sx); out_i64(sy);
  VA(sx == (int64_t)EXPECT_0 && sy == (int64_t)EXPECT_1);   // values printed by the plain build (eng_plain.cpp), obtained at check time
  verif_reach();
}
