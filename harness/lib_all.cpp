// All library translation units + header-only code in one TU, nothing else: used by the global-state scan (C14).
#include "src/clipper.engine.cpp"
#include "src/clipper.offset.cpp"
#include "src/clipper.rectclip.cpp"
#include "clipper2/clipper.minkowski.h"
#include "clipper2/clipper.export.h"
#include "harness.h"
using namespace Clipper2Lib;
// instantiate the header-only entry points so that their code (and any static state they might hide) is in the IR
extern "C" void instantiate_all() {
  Paths64 a, b; PathsD ad, bd; Path64 p; PathD pd;
  (void)BooleanOp(ClipType::Union, FillRule::NonZero, a, b); (void)BooleanOp(ClipType::Union, FillRule::NonZero, ad, bd, 2);
  (void)InflatePaths(a, 1.0, JoinType::Round, EndType::Polygon); (void)InflatePaths(ad, 1.0, JoinType::Round, EndType::Polygon);
  (void)RectClip(Rect64(0, 0, 1, 1), a); (void)RectClipLines(Rect64(0, 0, 1, 1), a); (void)RectClip(RectD(0, 0, 1, 1), ad); (void)RectClipLines(RectD(0, 0, 1, 1), ad);
  (void)MinkowskiSum(p, p, true); (void)MinkowskiDiff(p, p, true); (void)MinkowskiSum(pd, pd, true); (void)MinkowskiDiff(pd, pd, true);
  (void)TrimCollinear(p); (void)TrimCollinear(pd, 2); (void)SimplifyPath(p, 1.0); (void)SimplifyPath(pd, 1.0); (void)RamerDouglasPeucker(p, 1.0); (void)RamerDouglasPeucker(pd, 1.0);
  (void)Ellipse(Point64((int64_t)0, (int64_t)0), 1.0); (void)Length(p); (void)Area(a); (void)GetBounds(a); (void)StripNearEqual(p, 1.0, true);
  PolyTree64 t; PolyTreeD td; Clipper64 c; ClipperD cd; c.Execute(ClipType::Union, FillRule::NonZero, t); cd.Execute(ClipType::Union, FillRule::NonZero, td);
  (void)PolyTreeToPaths64(t); (void)PolyTreeToPathsD(td);
  ClipperOffset co; co.Execute(1.0, t);
  ReuseableDataContainer64 rd; rd.AddPaths(a, PathType::Subject, false); c.AddReuseableData(rd);
}
