// ClipperOffset control logic (C06 c/d, C07 a-d, C12 d/e): per-path dispatch, group delta sign, single points, clean-up union.
// The geometric workers (OffsetPolygon / OffsetOpenJoined / OffsetOpenPath / BuildNormals / Ellipse) and the inner Clipper64 are
// replaced by recorders at IR level; acos/sin/cos return arbitrary values in their mathematical ranges.
#include "src/clipper.engine.cpp"
#include "src/clipper.offset.cpp"
#include "harness.h"
using namespace Clipper2Lib;

struct PRec { int kind; int et, jt; double gd; int64_t id; size_t len; double temp_lim; };   // kind: 1 polygon, 2 joined, 3 open, 4 ellipse, 5 square point
static PRec LAST; static int NLOG; static bool g_push;   // g_push: workers also append to the solution (needed only where the clean-up union is observed)      // only the most recent worker invocation is kept (no symbolically indexed log)
static void rec(int kind, ClipperOffset* s, const Path64& p) {
  NLOG++;
  LAST.kind = kind; LAST.et = (int)s->end_type_; LAST.jt = (int)s->join_type_; LAST.gd = s->group_delta_; LAST.id = p.size() ? p[0].x : -1; LAST.len = p.size(); LAST.temp_lim = s->temp_lim_;
}
extern "C" __attribute__((noinline)) void stub_polygon(ClipperOffset* s, ClipperOffset::Group& g, const Path64& p) { rec(1, s, p); if (g_push) s->solution->emplace_back(p); }
extern "C" __attribute__((noinline)) void stub_joined(ClipperOffset* s, ClipperOffset::Group& g, const Path64& p) { rec(2, s, p); if (g_push) s->solution->emplace_back(p); }
extern "C" __attribute__((noinline)) void stub_open(ClipperOffset* s, ClipperOffset::Group& g, const Path64& p) { rec(3, s, p); if (g_push) s->solution->emplace_back(p); }
extern "C" __attribute__((noinline)) void stub_normals(ClipperOffset* s, const Path64& p) {}
static double g_ell_r; static size_t g_ell_steps; static int64_t g_ell_x;
extern "C" __attribute__((noinline)) void stub_ellipse(Path64* out, const Point64& c, double rx, double ry, size_t steps) {
  new (out) Path64(); g_ell_r = rx; g_ell_steps = steps; g_ell_x = c.x; VA(rx == ry);
  out->push_back(c);
}
static inline double nd_in(double lo, double hi) { double d = nondet_double(); ASSUME(d >= lo && d <= hi); return d; }
static int g_acos_calls;
extern "C" __attribute__((noinline)) double stub_acos(double x) { g_acos_calls++; return nd_in(0.0, 3.1415926535897936); }
extern "C" __attribute__((noinline)) double stub_sin(double x) { return nd_in(-1.0, 1.0); }
extern "C" __attribute__((noinline)) double stub_cos(double x) { return nd_in(-1.0, 1.0); }
static bool same_double(double a, double b) { uint64_t x, y; __builtin_memcpy(&x, &a, 8); __builtin_memcpy(&y, &b, 8); return x == y; }
static bool same_rec(const PRec& a, const PRec& b) { return a.kind == b.kind && a.et == b.et && a.jt == b.jt && same_double(a.gd, b.gd) && a.id == b.id && a.len == b.len; }

#ifndef LEN0
#define LEN0 2
#endif
#ifndef LEN1
#define LEN1 3
#endif
static Path64 mk(int len, int64_t id) {
  Path64 p; // distinct, counter-clockwise in Clipper's y-down sense does not matter: concrete, non-degenerate
  if (len >= 1) p.push_back(Point64(id, (int64_t)0));
  if (len >= 2) p.push_back(Point64(id + 40, (int64_t)0));
  if (len >= 3) p.push_back(Point64(id + 40, (int64_t)30));
  if (len >= 4) p.push_back(Point64(id, (int64_t)30));
#ifdef REVERSED
  if (len >= 3) std::reverse(p.begin() + 1, p.end());     // same first vertex (the id), opposite orientation: the "reversed" convention
#endif
  return p;
}
// inflating by up to 1e6, shrinking by at most 14 (the test paths are 40x30: a larger shrink may legitimately be skipped as vanishing)
static double nd_delta() { double d = nondet_double(); ASSUME((d >= 0.5 && d <= 1e6) || (d <= -0.5 && d >= -14.0)); return d; }

static void run_group(const Paths64& paths, JoinType jt, EndType et, double delta, double arc_tol, Paths64& sol) {
  ClipperOffset& co = *new ClipperOffset(2.0, arc_tol);
  sol.reserve(8);                  // no reallocation under symbolic guards
  co.solution = &sol;
  co.delta_ = delta;
  ClipperOffset::Group& g = *new ClipperOffset::Group(paths, jt, et);
  co.DoGroupOffset(g);
}

// C07.a / C12: what is done to a path depends on the path and its group only, not on the other paths offset before it
extern "C" void harness_dispatch_independent() {
  JoinType jt = (JoinType)nd_int(0, 3); EndType et = (EndType)nd_int(0, 4);
  double delta = nd_delta(), at = nd_in(0.0, 100.0);
  Paths64 both; both.push_back(mk(LEN0, 100)); both.push_back(mk(LEN1, 1000));
  Paths64 only1; only1.push_back(mk(LEN1, 1000));
  Paths64 s1, s2;
  NLOG = 0; run_group(both, jt, et, delta, at, s1);
  int n_both = NLOG; PRec second = LAST;
  NLOG = 0; run_group(only1, jt, et, delta, at, s2);
  VA(NLOG <= 1);
  if (NLOG == 1) { VA(n_both >= 1); VA(same_rec(second, LAST)); }
  else if (n_both >= 1) VA(second.id != 1000);

  verif_reach();
}

// C07.b/c/d: +-delta symmetry for open end types, single-point shapes, polygon sign
extern "C" void harness_dispatch_rules() {
  JoinType jt = (JoinType)nd_int(0, 3); EndType et = (EndType)nd_int(0, 4);
  double delta = nd_delta(), at = nd_in(0.0, 100.0);
  Paths64 one; one.push_back(mk(LEN1, 1000));
  Paths64 s;
  NLOG = 0; g_ell_x = -1; g_acos_calls = 0; run_group(one, jt, et, delta, at, s);
  // the arc-step state (steps_per_rad_, step_sin_, step_cos_) is recomputed for the group whenever round joins OR round end caps will be drawn
  if (jt == JoinType::Round || et == EndType::Round) VA(g_acos_calls == 1);
  double ad = delta < 0 ? -delta : delta;
  if (LEN1 == 1) {
    // single points become circles (Round) or squares of half-width ceil(|delta|), skipped iff the group delta is below 1
    double gd = (et == EndType::Polygon) ? delta : ad;
    if (gd < 1) VA(s.empty());
    else if (jt == JoinType::Round) { VA(s.size() == 1 && g_ell_x == 1000 && same_double(g_ell_r, ad)); }
    else { VA(s.size() == 1 && s[0].size() == 4); int64_t d = s[0][1].x - 1000; VA((double)d >= ad && (double)(d - 1) < ad);   /* d == ceil(|delta|) */ VA(s[0][0].x == 1000 - d && s[0][0].y == -d && s[0][2].x == 1000 + d && s[0][2].y == d); }
  } else {
    VA(NLOG == 1);
    // mk() paths are positively oriented (area > 0), so a Polygon group is not reversed: group delta == delta
#ifdef REVERSED
    if (et == EndType::Polygon) { VA(LAST.kind == 1); VA(same_double(LAST.gd, LEN1 >= 3 ? -delta : delta)); }   // negatively oriented group: delta negated
#else
    if (et == EndType::Polygon) { VA(LAST.kind == 1); VA(same_double(LAST.gd, delta)); }
#endif
    else {
      VA(same_double(LAST.gd, ad));               // identical for +delta and -delta
      if (et == EndType::Joined && LEN1 == 2) { VA(LAST.kind == 3); VA(LAST.et == (int)(jt == JoinType::Round ? EndType::Round : EndType::Square)); }
      else if (et == EndType::Joined) { VA(LAST.kind == 2 && LAST.et == (int)EndType::Joined); }
      else { VA(LAST.kind == 3 && LAST.et == (int)et); }
    }
    VA(LAST.jt == (int)jt);
  }
  verif_reach();
}

// C12.e / C06.c: groups are independent: the delta a group sees is the delta of the call, whatever groups came before
struct CRec { int n_add, n_exec; int fr, ct; bool rev, pres; size_t n_paths; bool poly; int n_bp, n_bt; const void* bp_target; const void* bt_target; };
static CRec C;
extern "C" __attribute__((noinline)) void stub_addpaths(ClipperBase* self, const Paths64& paths, PathType pt, bool is_open) { C.n_add++; C.n_paths = paths.size(); }
extern "C" __attribute__((noinline)) bool stub_execint(ClipperBase* self, ClipType ct, FillRule fr, bool use_polytrees) { C.ct = (int)ct; C.fr = (int)fr; C.poly = use_polytrees; C.rev = self->reverse_solution_; C.pres = self->preserve_collinear_; C.n_exec++; return true; }
extern "C" __attribute__((noinline)) void stub_buildpaths64(Clipper64* self, Paths64& closed, Paths64* open) { C.n_bp++; C.bp_target = &closed; }
extern "C" __attribute__((noinline)) void stub_buildtree64(Clipper64* self, PolyPath64& tree, Paths64& open) { C.n_bt++; C.bt_target = &tree; }
extern "C" __attribute__((noinline)) void stub_cleanup(ClipperBase* self) {}

// CalcSolutionCapacity only sizes a reserve(); a constant keeps the heap shape concrete (capacity is not observable)
extern "C" __attribute__((noinline)) size_t stub_capacity(ClipperOffset* s) { return 4; }

extern "C" void harness_groups_independent() {
  JoinType jt = (JoinType)nd_int(0, 3);
  EndType et0 = (EndType)nd_int(0, 4), et1 = (EndType)nd_int(0, 4);
  double delta = nd_delta();
  bool rev = nondet_bool(), pres = nondet_bool();
  ClipperOffset& co = *new ClipperOffset(2.0, 0.0, pres, rev);
  Paths64 g0; g0.push_back(mk(LEN0, 100));       // LEN0 == 0: a group whose only path is empty
  Paths64 g1; g1.push_back(mk(3, 1000));
  co.AddPaths(g0, jt, et0);
  co.AddPaths(g1, jt, et1);
  Paths64 sol; sol.reserve(8);     // capacity above CalcSolutionCapacity(): no reallocation on a symbolic size
  NLOG = 0; g_push = true; co.Execute(delta, sol);
  // the record of the triangle (id 1000) must be what it is when offset alone
  Paths64 s2; int n = NLOG; PRec r = LAST;
  VA(n >= 1 && r.id == 1000);
  double ad = delta < 0 ? -delta : delta;
  VA(same_double(r.gd, et1 == EndType::Polygon ? delta : ad));
  // C06.c: the clean-up union keeps the input orientation convention
  VA(C.n_exec == 1 && C.ct == (int)ClipType::Union);
  VA(C.fr == (int)FillRule::Positive && C.rev == rev && C.pres == pres);   // mk() paths are positive: not reversed
  verif_reach();
}

// C12: the Paths64 and PolyTree64 overloads of ClipperOffset::Execute can be mixed on one object: each call delivers its
// clean-up union into the container of THAT call (nothing is kept from the previous call's destination)
extern "C" void harness_execute_overloads() {
  ClipperOffset& co = *new ClipperOffset();
  Paths64 g1; g1.push_back(mk(3, 1000));
  co.AddPaths(g1, (JoinType)nd_int(0, 3), EndType::Polygon);
  PolyTree64& tree = *new PolyTree64(); PolyTree64& tree2 = *new PolyTree64();
  Paths64 sol; sol.reserve(8);
  g_push = true;
  co.Execute(nd_delta(), tree);
  VA(C.n_exec == 1 && C.poly && C.n_bt == 1 && C.bt_target == (const void*)&tree && C.n_bp == 0);
  co.Execute(nd_delta(), sol);
  VA(C.n_exec == 2 && !C.poly && C.n_bp == 1 && C.bp_target == (const void*)&sol && C.n_bt == 1);
  co.Execute(nd_delta(), tree2);
  VA(C.n_exec == 3 && C.poly && C.n_bt == 2 && C.bt_target == (const void*)&tree2 && C.n_bp == 1);
  verif_reach();
}

// C06 (miter clause) / C12: the miter threshold the join selection uses during an Execute is the one of the miter limit in force at
// that Execute (constructor value, or the value set since through MiterLimit()), on every call of a reused object
extern "C" void harness_miter_limit_in_force() {
  static const double ML[6] = {0.5, 1.0, 1.5, 2.0, 4.0, 10.0};
  static const double TL[6] = {2.0, 2.0, 2.0 / (1.5 * 1.5), 2.0 / (2.0 * 2.0), 2.0 / (4.0 * 4.0), 2.0 / (10.0 * 10.0)};
  int i0 = nd_int(0, 5), i1 = nd_int(0, 5), i2 = nd_int(0, 5);
  ClipperOffset& co = *new ClipperOffset(ML[i0]);
  Paths64 g1; g1.push_back(mk(3, 1000));
  co.AddPaths(g1, JoinType::Miter, EndType::Polygon);
  Paths64 sol; sol.reserve(8);
  g_push = true; NLOG = 0;
  co.Execute(nd_delta(), sol);
  VA(NLOG == 1 && same_double(LAST.temp_lim, TL[i0]));
  co.MiterLimit(ML[i1]);
  VA(same_double(co.MiterLimit(), ML[i1]));
  co.Execute(nd_delta(), sol);
  VA(NLOG == 2 && same_double(LAST.temp_lim, TL[i1]));
  co.MiterLimit(ML[i2]);
  PolyTree64& tree = *new PolyTree64();
  co.Execute(nd_delta(), tree);
  VA(NLOG == 3 && same_double(LAST.temp_lim, TL[i2]));
  verif_reach();
}

// C06.d: |delta| < 0.5 hands the input paths to the union unchanged
extern "C" void harness_tiny_delta() {
  double delta = nondet_double(); ASSUME(delta > -0.5 && delta < 0.5);
  ClipperOffset& co = *new ClipperOffset();
  Paths64 g1; g1.push_back(mk(3, 1000));
  co.AddPaths(g1, (JoinType)nd_int(0, 3), (EndType)nd_int(0, 4));
  Paths64 sol; sol.reserve(8);
  NLOG = 0; co.Execute(delta, sol);
  VA(NLOG == 0);                       // no offsetting worker ran
  VA(C.n_add == 1 && C.n_paths == 1 && C.n_exec == 1);
  verif_reach();
}

// C07: the Group constructor treats Polygon and Joined paths as closed (a closing duplicate of the first vertex and repeated
// vertices are stripped) and open end types as open (only repeated consecutive vertices are stripped)
extern "C" void harness_group_ctor() {
  EndType et = (EndType)nd_int(0, 4); JoinType jt = (JoinType)nd_int(0, 3);
  Paths64 in(1);
  in[0].push_back(Point64((int64_t)0, (int64_t)0)); in[0].push_back(Point64((int64_t)40, (int64_t)0)); in[0].push_back(Point64((int64_t)40, (int64_t)0));
  in[0].push_back(Point64((int64_t)40, (int64_t)30)); in[0].push_back(Point64((int64_t)0, (int64_t)0));      // A B B C A
  ClipperOffset::Group& g = *new ClipperOffset::Group(in, jt, et);
  VA(g.paths_in.size() == 1 && g.join_type == jt && g.end_type == et);
  bool closed = et == EndType::Polygon || et == EndType::Joined;
  VA(g.paths_in[0].size() == (closed ? (size_t)3 : (size_t)4));
  VA(g.lowest_path_idx.has_value() == (et == EndType::Polygon));
  verif_reach();
}

// ---- C06.a: OffsetPoint chooses the join by the turn direction relative to the offset side -----------------------------------
// Unit normals are drawn from eight exactly representable directions (axis-parallel and 3-4-5), delta is symbolic; the join
// workers are recorders. Decision table (from the property: concave joins are the vertex itself between the two edge offsets,
// convex joins use the requested join type, miter falls back to square beyond the miter limit):
struct JRec { int n; int kind; size_t j, k; double cos_a, angle; };
static JRec J;
extern "C" __attribute__((noinline)) void stub_domiter(ClipperOffset* s, const Path64& p, size_t j, size_t k, double cos_a) { J.n++; J.kind = 1; J.j = j; J.k = k; J.cos_a = cos_a; }
extern "C" __attribute__((noinline)) void stub_dosquare(ClipperOffset* s, const Path64& p, size_t j, size_t k) { J.n++; J.kind = 2; J.j = j; J.k = k; }
extern "C" __attribute__((noinline)) void stub_doround(ClipperOffset* s, const Path64& p, size_t j, size_t k, double angle) { J.n++; J.kind = 3; J.j = j; J.k = k; J.angle = angle; }
extern "C" __attribute__((noinline)) void stub_dobevel(ClipperOffset* s, const Path64& p, size_t j, size_t k) { J.n++; J.kind = 4; J.j = j; J.k = k; }
extern "C" __attribute__((noinline)) double stub_atan2(double y, double x) { return nd_in(-3.1415926535897936, 3.1415926535897936); }
extern "C" __attribute__((noinline)) Point64* stub_pathout_append(Path64* v, Point64&& p) {
  VA(v->_M_impl._M_finish != v->_M_impl._M_end_of_storage); ASSUME(v->_M_impl._M_finish != v->_M_impl._M_end_of_storage);
  Point64* f = v->_M_impl._M_finish; *f = p; v->_M_impl._M_finish = f + 1; return f;
}
extern "C" __attribute__((noinline)) Point64* stub_pathout_append_c(Path64* v, const Point64& p) {
  VA(v->_M_impl._M_finish != v->_M_impl._M_end_of_storage); ASSUME(v->_M_impl._M_finish != v->_M_impl._M_end_of_storage);
  Point64* f = v->_M_impl._M_finish; *f = p; v->_M_impl._M_finish = f + 1; return f;
}
static PointD nd_normal() {
  static const double NX[8] = {1.0, 0.0, -1.0, 0.0, 0.6, -0.6, 0.8, -0.8}, NY[8] = {0.0, 1.0, 0.0, -1.0, 0.8, 0.8, -0.6, -0.6};
  int i = nd_int(0, 7); return PointD(NX[i], NY[i]);
}
extern "C" void harness_offsetpoint() {
  ClipperOffset& co = *new ClipperOffset(2.0, 0.0);
  Paths64 sol; co.solution = &sol;
  Path64 path; path.reserve(4); path.push_back(Point64((int64_t)0, (int64_t)0)); path.push_back(Point64((int64_t)100, (int64_t)0)); path.push_back(Point64((int64_t)100, (int64_t)100));
  co.norms.push_back(nd_normal()); co.norms.push_back(nd_normal()); co.norms.push_back(nd_normal());
  co.path_out.reserve(8);
#ifdef OP_COORDS   // coordinates of the concave join are checked for a table of deltas (a symbolic delta times a symbolic normal is out of reach)
  static const double DT[6] = {0.5, -0.5, 3.25, -7.0, 1e6, -1e6};
  double delta = DT[nd_int(0, 5)];
#else
  double delta = nondet_double(); ASSUME((delta >= 0.5 && delta <= 1e6) || (delta <= -0.5 && delta >= -1e6));
#endif
  co.group_delta_ = delta; co.join_type_ = (JoinType)nd_int(0, 3);
  double ml = nd_in(0.0, 10.0); co.temp_lim_ = (ml <= 1) ? 2.0 : 2.0 / (ml * ml);
  ClipperOffset::Group& g = *new ClipperOffset::Group(Paths64(1, path), co.join_type_, EndType::Polygon);
  const size_t j = 1, k = 0;
  J.n = 0; J.kind = 0;
  co.OffsetPoint(g, path, j, k);
  const PointD& nj = co.norms[j]; const PointD& nk = co.norms[k];
  double sin_a = nj.y * nk.x - nk.y * nj.x, cos_a = nj.x * nk.x + nj.y * nk.y;    // turn from edge k to edge j
  bool concave = cos_a > -0.999 && sin_a * delta < 0;                            // turning towards the offset side
  if (concave) {
    VA(J.n == 0 && co.path_out.size() == 3);
#ifdef OP_COORDS
    if (co.path_out.size() == 3) {
      VA(co.path_out[1] == path[j]);                                              // the vertex itself, between ...
      VA(co.path_out[0] == Point64(path[j].x + nk.x * delta, path[j].y + nk.y * delta));   // ... the offset along the previous edge's normal
      VA(co.path_out[2] == Point64(path[j].x + nj.x * delta, path[j].y + nj.y * delta));   // ... and along this edge's normal
    }
#endif
  } else {
    VA(J.n == 1 && co.path_out.empty() && J.j == j && J.k == k);
    JoinType jt = co.join_type_;
    if (cos_a > 0.999 && jt != JoinType::Round) VA(J.kind == 1);                 // almost straight: a single mitered point
    else if (jt == JoinType::Miter) VA(J.kind == (cos_a > co.temp_lim_ - 1 ? 1 : 2));   // miter unless the limit is exceeded, then square
    else if (jt == JoinType::Round) VA(J.kind == 3);
    else if (jt == JoinType::Bevel) VA(J.kind == 4);
    else VA(J.kind == 2);
    if (J.kind == 1) VA(same_double(J.cos_a, cos_a));
  }
  verif_reach();
}

// ---- C07: OffsetOpenPath / OffsetOpenJoined walk both sides of an open path and cap its ends as the end type says ----------------
// The join/cap workers and OffsetPoint are recorders; the path has 4 concrete vertices, its normals are arbitrary finite doubles.
// Expected event sequence for OffsetOpenPath: start cap at vertex 0, left side forward (OffsetPoint j=1,2 with k=j-1), the normals are
// reversed, end cap at vertex 3, right side backward (OffsetPoint j=2,1 with k=j+1); Butt = bevel cap, Round = half-circle (angle pi),
// Square = square cap; exactly one output path is appended to the solution.
struct Ev { int kind; size_t j, k; double a; };      // kind: 2 square, 3 round, 4 bevel, 5 OffsetPoint
static Ev EV[8]; static int NEV; static PointD g_norm_at_endcap[4];
static void ev(ClipperOffset* s, int kind, size_t j, size_t k, double a) {
  if (NEV < 8) { EV[NEV].kind = kind; EV[NEV].j = j; EV[NEV].k = k; EV[NEV].a = a; }
  if (NEV == 3) for (int i = 0; i < 4; ++i) g_norm_at_endcap[i] = s->norms[i];      // the 4th event is the end cap
  NEV++;
}
extern "C" __attribute__((noinline)) void stub_ev_square(ClipperOffset* s, const Path64& p, size_t j, size_t k) { ev(s, 2, j, k, 0.0); }
extern "C" __attribute__((noinline)) void stub_ev_round(ClipperOffset* s, const Path64& p, size_t j, size_t k, double angle) { ev(s, 3, j, k, angle); }
extern "C" __attribute__((noinline)) void stub_ev_bevel(ClipperOffset* s, const Path64& p, size_t j, size_t k) { ev(s, 4, j, k, 0.0); }
extern "C" __attribute__((noinline)) void stub_ev_offsetpoint(ClipperOffset* s, ClipperOffset::Group& g, const Path64& p, size_t j, size_t k) { ev(s, 5, j, k, 0.0); }
extern "C" void harness_offsetopenpath() {
  ClipperOffset& co = *new ClipperOffset(2.0, 0.0);
  Paths64 sol; sol.reserve(4); co.solution = &sol;
  Path64 path; path.reserve(4);
  path.push_back(Point64((int64_t)0, (int64_t)0)); path.push_back(Point64((int64_t)100, (int64_t)0)); path.push_back(Point64((int64_t)100, (int64_t)100)); path.push_back(Point64((int64_t)200, (int64_t)100));
  PointD n0[4];
  for (int i = 0; i < 4; ++i) { n0[i] = PointD(nd_in(-1.0, 1.0), nd_in(-1.0, 1.0)); co.norms.push_back(n0[i]); }
  double delta = nondet_double(); ASSUME(delta >= 0.5 && delta <= 1e6);      // open paths are offset with |delta| (C07.bcd)
  co.group_delta_ = delta;
  EndType et = (EndType)nd_int(2, 4);                                           // Butt, Square, Round
  co.end_type_ = et; co.join_type_ = (JoinType)nd_int(0, 3);
  ClipperOffset::Group& g = *new ClipperOffset::Group(Paths64(1, path), co.join_type_, et);
  NEV = 0;
  co.OffsetOpenPath(g, path);
  VA(NEV == 6);
  int cap = et == EndType::Butt ? 4 : et == EndType::Round ? 3 : 2;
  VA(EV[0].kind == cap && EV[0].j == 0 && EV[0].k == 0);
  VA(EV[1].kind == 5 && EV[1].j == 1 && EV[1].k == 0 && EV[2].kind == 5 && EV[2].j == 2 && EV[2].k == 1);
  VA(EV[3].kind == cap && EV[3].j == 3 && EV[3].k == 3);
  VA(EV[4].kind == 5 && EV[4].j == 2 && EV[4].k == 3 && EV[5].kind == 5 && EV[5].j == 1 && EV[5].k == 2);
  if (cap == 3) VA(EV[0].a > 3.14159265 && EV[0].a < 3.14159266 && same_double(EV[0].a, EV[3].a));     // half circles
  // the far side is walked with reversed normals: norms[i] = -n0[i-1] (i = 3..1), norms[0] = norms[3]
  for (int i = 1; i < 4; ++i) VA(same_double(g_norm_at_endcap[i].x, -n0[i - 1].x) && same_double(g_norm_at_endcap[i].y, -n0[i - 1].y));
  VA(same_double(g_norm_at_endcap[0].x, -n0[2].x) && same_double(g_norm_at_endcap[0].y, -n0[2].y));
  VA(sol.size() == 1);
  verif_reach();
}

// C07 (Joined end type) / C06: OffsetOpenJoined offsets the path as a polygon, then the reversed path with the normals rebuilt for the
// other side (reversed, rotated by one, negated); OffsetPolygon visits every vertex once with its cyclic predecessor.
struct JEv { size_t j, k; int64_t first_x; };
static JEv JEV[8]; static int NJEV; static PointD g_norm_second[3];
extern "C" __attribute__((noinline)) void stub_jev_offsetpoint(ClipperOffset* s, ClipperOffset::Group& g, const Path64& p, size_t j, size_t k) {
  if (NJEV < 8) { JEV[NJEV].j = j; JEV[NJEV].k = k; JEV[NJEV].first_x = p[0].x; }
  if (NJEV == 3) for (int i = 0; i < 3; ++i) g_norm_second[i] = s->norms[i];
  NJEV++;
}
extern "C" void harness_offsetopenjoined() {
  ClipperOffset& co = *new ClipperOffset(2.0, 0.0);
  Paths64 sol; sol.reserve(4); co.solution = &sol;
  Path64 path; path.reserve(4);
  path.push_back(Point64((int64_t)7, (int64_t)0)); path.push_back(Point64((int64_t)100, (int64_t)0)); path.push_back(Point64((int64_t)150, (int64_t)100));
  PointD n0[3]; co.norms.reserve(8);
  for (int i = 0; i < 3; ++i) { n0[i] = PointD(nd_in(-1.0, 1.0), nd_in(-1.0, 1.0)); co.norms.push_back(n0[i]); }
  co.group_delta_ = nd_in(0.5, 1e6); co.end_type_ = EndType::Joined; co.join_type_ = (JoinType)nd_int(0, 3);
  ClipperOffset::Group& g = *new ClipperOffset::Group(Paths64(1, path), co.join_type_, EndType::Joined);
  NJEV = 0;
  co.OffsetOpenJoined(g, path);
  VA(NJEV == 6 && sol.size() == 2);
  for (int r = 0; r < 2; ++r) {
    VA(JEV[3 * r].j == 0 && JEV[3 * r].k == 2 && JEV[3 * r + 1].j == 1 && JEV[3 * r + 1].k == 0 && JEV[3 * r + 2].j == 2 && JEV[3 * r + 2].k == 1);
    for (int i = 0; i < 3; ++i) VA(JEV[3 * r + i].first_x == (r == 0 ? 7 : 150));          // second round: the reversed path
  }
  VA(co.norms.size() == 3);
  const PointD exp[3] = {PointD(-n0[1].x, -n0[1].y), PointD(-n0[0].x, -n0[0].y), PointD(-n0[2].x, -n0[2].y)};
  for (int i = 0; i < 3; ++i) VA(same_double(g_norm_second[i].x, exp[i].x) && same_double(g_norm_second[i].y, exp[i].y));
  verif_reach();
}

#ifndef JGEOM
#define JGEOM 0
#endif
// ---- C06/C07 join geometry: bevel and miter points lie where the property says, checked in exact integer arithmetic ---------------
// Unit normals n = (a,b)/5 from the eight exact directions, delta from a table of multiples of 5. For a join at vertex v between the
// edge with normal nk and the edge with normal nj:
//   bevel join: the two points are v + delta*nk and v + delta*nj exactly (integers);   bevel cap: v -/+ |delta|*n
//   miter join: the point p lies on both offset lines: (p - v).nk = delta = (p - v).nj up to the rounding of p to integers
static const int64_t NA[8] = {5, 0, -5, 0, 3, -3, 4, -4}, NB[8] = {0, 5, 0, -5, 4, 4, -3, -3};
extern "C" void harness_join_geometry() {
  static const double NX[8] = {1.0, 0.0, -1.0, 0.0, 0.6, -0.6, 0.8, -0.8}, NY[8] = {0.0, 1.0, 0.0, -1.0, 0.8, 0.8, -0.6, -0.6};
  static const int64_t DM[6] = {1, -1, 2, 25, -200, 100000};          // delta = 5 * DM
  ClipperOffset& co = *new ClipperOffset(2.0, 0.0);
  Path64 path; path.reserve(4); path.push_back(Point64((int64_t)-40, (int64_t)7)); path.push_back(Point64((int64_t)1000, (int64_t)-2000)); path.push_back(Point64((int64_t)3, (int64_t)3));
  int ik = nd_int(0, 7), ij = nd_int(0, 7), id = nd_int(0, 5);
  co.norms.reserve(4); co.norms.push_back(PointD(NX[ik], NY[ik])); co.norms.push_back(PointD(NX[ij], NY[ij])); co.norms.push_back(PointD(NX[ij], NY[ij]));
  co.path_out.reserve(8);
  const int64_t dm = DM[id]; co.group_delta_ = (double)(5 * dm);
  const Point64 v = path[1]; const size_t j = 1, k = 0;
#if JGEOM == 0      // bevel join
  co.DoBevel(path, j, k);
  VA(co.path_out.size() == 2);
  VA(co.path_out[0].x == v.x + dm * NA[ik] && co.path_out[0].y == v.y + dm * NB[ik]);
  VA(co.path_out[1].x == v.x + dm * NA[ij] && co.path_out[1].y == v.y + dm * NB[ij]);
#elif JGEOM == 1    // bevel (butt) cap at an end vertex: j == k
  co.DoBevel(path, j, j);
  const int64_t am = dm < 0 ? -dm : dm;
  VA(co.path_out.size() == 2);
  VA(co.path_out[0].x == v.x - am * NA[ij] && co.path_out[0].y == v.y - am * NB[ij]);
  VA(co.path_out[1].x == v.x + am * NA[ij] && co.path_out[1].y == v.y + am * NB[ij]);
#else               // miter join (only called for cos_a > -0.999...: not for reversals)
  const int64_t dot25 = NA[ik] * NA[ij] + NB[ik] * NB[ij];            // 25 * cos
  ASSUME(dot25 > -25);
  co.DoMiter(path, j, k, co.norms[j].x * co.norms[k].x + co.norms[j].y * co.norms[k].y);
  VA(co.path_out.size() == 1);
  const int64_t px = co.path_out[0].x - v.x, py = co.path_out[0].y - v.y;
  const int64_t ek = px * NA[ik] + py * NB[ik] - 25 * dm, ej = px * NA[ij] + py * NB[ij] - 25 * dm;   // 5 * ((p-v).n - delta)
  VA(ek >= -4 && ek <= 4 && ej >= -4 && ej <= 4);
#endif
  verif_reach();
}
