// RectClip64 / RectClipLines64 mechanisms (C08, C09, C12.f): location classification, GetNextLocation, Execute shortcuts,
// per-path clean-up.
#include "src/clipper.engine.cpp"
#include "src/clipper.rectclip.cpp"
#include "harness.h"
using namespace Clipper2Lib;

static const int64_t M40 = (int64_t)1 << 40;
static inline int64_t c40() { return nd_range(-M40, M40); }
static Rect64 nd_rect() { Rect64 r(c40(), c40(), c40(), c40()); ASSUME(r.left < r.right && r.top < r.bottom); return r; }

// C08.a GetLocation: false <=> the point is on the rectangle boundary; loc names a region containing the point
extern "C" void harness_getlocation() {
  Rect64 r = nd_rect(); Point64 p(c40(), c40());
  Location loc; bool off = GetLocation(r, p, loc);
  bool in_closed = p.x >= r.left && p.x <= r.right && p.y >= r.top && p.y <= r.bottom;
  bool on_bnd = in_closed && (p.x == r.left || p.x == r.right || p.y == r.top || p.y == r.bottom);
  VA(off == !on_bnd);
  if (on_bnd) {
    VA(loc != Location::Inside);
    if (loc == Location::Left) VA(p.x == r.left); if (loc == Location::Right) VA(p.x == r.right);
    if (loc == Location::Top) VA(p.y == r.top); if (loc == Location::Bottom) VA(p.y == r.bottom);
  } else {
    VA((loc == Location::Inside) == in_closed);
    if (loc == Location::Left) VA(p.x < r.left); if (loc == Location::Right) VA(p.x > r.right);
    if (loc == Location::Top) VA(p.y < r.top); if (loc == Location::Bottom) VA(p.y > r.bottom);
  }
  verif_reach();
}

// RectClip64::Add replaced by a counter for the unit harnesses
static int g_adds; static Point64 g_added[8];
extern "C" __attribute__((noinline)) OutPt2* stub_add(RectClip64* self, int64_t x, int64_t y, bool start_new) {   // Point64 by value = two i64 in the ABI
  VA(g_adds < 8); ASSUME(g_adds < 8); g_added[g_adds++] = Point64(x, y); return nullptr;
}

#ifndef PN
#define PN 3
#endif
// C08 / C09.b GetNextLocation: skips exactly the vertices that stay in the current region; the new location names a region that
// contains the vertex it stops at; from Inside, boundary vertices count as inside (they are output), so it stops only strictly outside
extern "C" void harness_getnextlocation() {
  Rect64 r = nd_rect();
  RectClip64& rc = *new RectClip64(r);
  Point64 pts[PN]; for (int k = 0; k < PN; ++k) pts[k] = Point64(c40(), c40());
  Path64 path(pts, pts + PN);
  Location loc0 = (Location)nd_int(0, 4), loc = loc0;
  size_t i0 = (size_t)nd_int(0, PN - 1), i = i0, highI = PN - 1;
  g_adds = 0;
  rc.GetNextLocation(path, loc, i, highI);
  VA(i >= i0 && i <= highI + 1);
  // every skipped vertex stays in the starting region (closed half-plane / closed rectangle)
  for (size_t k = 0; k < PN; ++k) {
    if (k < i0 || k >= i) continue;
    const Point64& p = pts[k];
    switch (loc0) {
      case Location::Left: VA(p.x <= r.left); break;
      case Location::Top: VA(p.y <= r.top); break;
      case Location::Right: VA(p.x >= r.right); break;
      case Location::Bottom: VA(p.y >= r.bottom); break;
      default: VA(p.x >= r.left && p.x <= r.right && p.y >= r.top && p.y <= r.bottom);
    }
  }
  if (loc0 == Location::Inside) VA((size_t)g_adds == i - i0); else VA(g_adds == 0);   // inside vertices are output, others are not
  if (i <= highI) {
    const Point64& p = pts[i];
    VA(loc != loc0);
    if (loc0 == Location::Inside) {
      // it left the closed rectangle: strictly outside, and the new location is a half-plane strictly containing it
      VA(loc != Location::Inside);
      if (loc == Location::Left) VA(p.x < r.left); if (loc == Location::Right) VA(p.x > r.right);
      if (loc == Location::Top) VA(p.y < r.top); if (loc == Location::Bottom) VA(p.y > r.bottom);
    } else {
      if (loc == Location::Left) VA(p.x <= r.left); if (loc == Location::Right) VA(p.x >= r.right);
      if (loc == Location::Top) VA(p.y <= r.top); if (loc == Location::Bottom) VA(p.y >= r.bottom);
      if (loc == Location::Inside) VA(p.x > r.left && p.x < r.right && p.y > r.top && p.y < r.bottom);
    }
  } else VA(loc == loc0);
  verif_reach();
}

// C08 Execute shortcuts: a path whose bounds lie inside the rectangle is returned unchanged, one whose bounds miss it vanishes,
// paths with fewer than 3 points vanish, an empty rectangle gives nothing
#ifndef RES
#define RES 1
#endif
struct XRec { int n_int; bool dirty_at_entry; };
static XRec X;
static bool containers_empty(RectClip64* s) {
  bool e = s->results_.empty() && s->start_locs_.empty() && s->op_container_.empty();
  for (int k = 0; k < 8; ++k) e = e && s->edges_[k].empty();
  return e;
}
// stand-in for ExecuteInternal: records the state it finds, then leaves behind an arbitrary residue of a path that produced no
// output (what real paths that never cross the rectangle leave: start locations only) or of one that did
extern "C" __attribute__((noinline)) void stub_rc_execint(RectClip64* s, const Path64& path) {
  X.n_int++;
  if (!containers_empty(s)) X.dirty_at_entry = true;
  // RES (compile-time, one obligation per value): bit0/bit1 = number of start locations left behind (0..2), bit2 = a result ring + edge entry
  const int n = RES & 3;
  if (n >= 1) s->start_locs_.push_back(Location::Left);
  if (n >= 2) s->start_locs_.push_back(Location::Top);
  static OutPt2 ring; ring.next = &ring; ring.prev = &ring;
  if (RES & 4) { s->results_.push_back(&ring); s->edges_[2].push_back(&ring); }
}
extern "C" __attribute__((noinline)) void stub_rc_checkedges(RectClip64* s) {}
extern "C" __attribute__((noinline)) void stub_rc_tidy(RectClip64* s, size_t idx, OutPt2List& cw, OutPt2List& ccw) {}
extern "C" __attribute__((noinline)) void stub_rc_getpath(Path64* out, RectClip64* s, OutPt2*& op) { new (out) Path64(); }

extern "C" void harness_execute_shortcuts() {
  Rect64 r = nd_rect();
  RectClip64& rc = *new RectClip64(r);
  Point64 a(c40(), c40()), b(c40(), c40()), c(c40(), c40());
  Paths64 in; in.push_back(Path64{a, b, c});
  int64_t xl = a.x < b.x ? (a.x < c.x ? a.x : c.x) : (b.x < c.x ? b.x : c.x), xh = a.x > b.x ? (a.x > c.x ? a.x : c.x) : (b.x > c.x ? b.x : c.x);
  int64_t yl = a.y < b.y ? (a.y < c.y ? a.y : c.y) : (b.y < c.y ? b.y : c.y), yh = a.y > b.y ? (a.y > c.y ? a.y : c.y) : (b.y > c.y ? b.y : c.y);
  bool inside = xl >= r.left && xh <= r.right && yl >= r.top && yh <= r.bottom;
  bool apart = xh < r.left || xl > r.right || yh < r.top || yl > r.bottom;
  X.n_int = 0;
  Paths64 out = rc.Execute(in);
  if (apart) { VA(out.empty()); VA(X.n_int == 0); }
  else if (inside) { VA(out.size() == 1 && out[0].size() == 3 && out[0][0] == a && out[0][1] == b && out[0][2] == c); VA(X.n_int == 0); }
  else VA(X.n_int == 1);
  verif_reach();
}

// C12.f per-path clean-up: whatever a path leaves in the object, the next path (same call or next call) starts from empty containers
extern "C" void harness_perpath_cleanup() {
  Rect64 r(0, 0, 100, 100);
  RectClip64& rc = *new RectClip64(r);
  Paths64 in;
  in.push_back(Path64{Point64(50, -60), Point64(-60, -60), Point64(-60, 50)});     // overlaps the rectangle's bounds
  in.push_back(Path64{Point64(20, 20), Point64(80, -10), Point64(80, 140)});
  X.n_int = 0; X.dirty_at_entry = false;
  rc.Execute(in);
  VA(X.n_int == 2);
  VA(!X.dirty_at_entry);
  VA(containers_empty(&rc));           // and a later Execute on the same object starts clean as well
  verif_reach();
}

// ---- C08/C09: GetIntersection returns the rectangle-edge crossing closest to p -----------------------------------------------
// GetSegmentIntersection (double cross products + GetSegmentIntersectPt) is replaced by its exact meaning for inputs in general
// position: "the open segment p-p2 properly crosses this rectangle edge", computed once per edge in the harness.
#ifndef GIL
#define GIL 4
#endif
#ifndef LIL
#define LIL 5
#endif
static const Point64* g_rp; static bool g_cross[4]; static Point64 g_p, g_p2; static int g_seg_calls;
static int edge_of(const Point64* a, const Point64* b) {
  long i = a - g_rp, j = b - g_rp;
  if (i == 0 && j == 3) return 0; if (i == 0 && j == 1) return 1; if (i == 1 && j == 2) return 2; if (i == 2 && j == 3) return 3;
  return -1;
}
extern "C" __attribute__((noinline)) bool stub_segint(const Point64& p1, const Point64& p2, const Point64& p3, const Point64& p4, Point64& ip) {
  int e = edge_of(&p3, &p4);
  VA(e >= 0); ASSUME(e >= 0);
  VA(p1 == g_p && p2 == g_p2);
  g_seg_calls++;
  ip = Point64((int64_t)e, (int64_t)e);
  return g_cross[e];
}
// oracle arithmetic in 32 bits (coordinates are below 2^12 in this harness, products below 2^26): small multipliers for the solver
static inline int32_t orient(const Point64& a, const Point64& b, const Point64& c) { return (int32_t)(b.x - a.x) * (int32_t)(c.y - a.y) - (int32_t)(b.y - a.y) * (int32_t)(c.x - a.x); }
static inline bool proper_cross(const Point64& a, const Point64& b, const Point64& c, const Point64& d) {
  int32_t o1 = orient(a, b, c), o2 = orient(a, b, d), o3 = orient(c, d, a), o4 = orient(c, d, b);
  return ((o1 > 0) != (o2 > 0)) && ((o3 > 0) != (o4 > 0));
}
extern "C" void harness_getintersection() {
  const int64_t L = (int64_t)1 << GIL;
  Rect64 r(nd_range(-L, L), nd_range(-L, L), nd_range(-L, L), nd_range(-L, L)); ASSUME(r.left < r.right && r.top < r.bottom);
  Path64 rp = r.AsPath(); g_rp = rp.data();
  Point64 p(nd_range(-L, L), nd_range(-L, L)), p2(nd_range(-L, L), nd_range(-L, L));
  // general position: neither end point on an edge line, the segment through no corner
  ASSUME(p.x != r.left && p.x != r.right && p.y != r.top && p.y != r.bottom && p2.x != r.left && p2.x != r.right && p2.y != r.top && p2.y != r.bottom);
  for (int k = 0; k < 4; ++k) ASSUME(orient(p, p2, rp[k]) != 0);
#ifdef LOC0
  Location loc0 = (Location)LOC0, loc = loc0;
#else
  Location loc0 = (Location)nd_int(0, 3), loc = loc0;
#endif
  // loc names a half-plane that strictly contains p (p is outside the rectangle)
  ASSUME((loc0 == Location::Left && p.x < r.left) || (loc0 == Location::Right && p.x > r.right) || (loc0 == Location::Top && p.y < r.top) || (loc0 == Location::Bottom && p.y > r.bottom));
  g_p = p; g_p2 = p2;
  const int A[4] = {0, 0, 1, 2}, B[4] = {3, 1, 2, 3};
  for (int e = 0; e < 4; ++e) g_cross[e] = proper_cross(p, p2, rp[A[e]], rp[B[e]]);
  // the crossing closest to p: the rectangle is convex and p is outside, so the segment meets the boundary at most twice, and the
  // crossing nearer to p is the entry crossing = the (unique) crossed edge that has p strictly on its outer side
  bool outer[4] = {p.x < r.left, p.y < r.top, p.x > r.right, p.y > r.bottom};
  int best = -1;
  for (int e = 0; e < 4; ++e) if (g_cross[e] && outer[e]) best = e;
  bool any = g_cross[0] || g_cross[1] || g_cross[2] || g_cross[3];
  ASSUME(!any || best >= 0);           // (geometric lemma above: a crossed boundary has an entry edge; keeps the query about the code)
  Point64 ip;
  bool got = GetIntersection(rp, p, p2, loc, ip);
  VA(got == (best >= 0));
  if (got) { VA((int)loc == best); VA(ip.x == best); } else VA(loc == loc0);
  verif_reach();
}

// C10: RectClipLines64::Execute on a sequence of paths, one of them a single point (real code, memory checks on)
extern "C" void harness_lines_sequence() {
  Rect64 r(0, 0, 100, 100);
  RectClipLines64& rc = *new RectClipLines64(r);
  int64_t y = 50, px = 50; bool twice = nondet_bool();   // geometry concrete: the point is the memory behaviour of the real containers
  Paths64 in(3);
  in[0].push_back(Point64((int64_t)-10, y)); in[0].push_back(Point64((int64_t)110, y));       // crosses the rectangle
  in[1].push_back(Point64(px, y));                                                              // a single point inside
  in[2].push_back(Point64((int64_t)20, (int64_t)20)); in[2].push_back(Point64((int64_t)30, (int64_t)40));   // entirely inside
  Paths64 out = rc.Execute(in);
  VA(out.size() == 2);
  if (out.size() == 2) { VA(out[0].size() == 2 && out[0][0].y == y && out[0][1].y == y); VA(out[1].size() == 2 && out[1][0].x == 20 && out[1][1].x == 30); }
  if (twice) { Paths64 again = rc.Execute(in); VA(again.size() == 2); }      // same object, second call
  verif_reach();
}

// ---- C09.a: the whole RectClipLines64::ExecuteInternal on one symbolic segment ------------------------------------------------
// Real code: ExecuteInternal, GetLocation, GetNextLocation, GetIntersection, Add. Contracts: GetSegmentIntersection = exact proper
// crossing with the crossing point satisfying the C18.d contract (on the edge, within one unit per axis of the true crossing);
// deque/vector appends = fresh pool element / no-reallocation append.
static OutPt2 g_pool[8]; static int g_pool_n;
extern "C" __attribute__((noinline)) OutPt2* stub_pool_outpt2(std::deque<OutPt2>* dq, OutPt2&& init) { VA(g_pool_n < 8); ASSUME(g_pool_n < 8); OutPt2* p = &g_pool[g_pool_n++]; *p = init; return p; }
extern "C" __attribute__((noinline)) OutPt2** stub_oplist_append(OutPt2List* v, OutPt2*& p) {
  VA(v->_M_impl._M_finish != v->_M_impl._M_end_of_storage); ASSUME(v->_M_impl._M_finish != v->_M_impl._M_end_of_storage);
  OutPt2** f = v->_M_impl._M_finish; *f = p; v->_M_impl._M_finish = f + 1; return f;
}
static Rect64 g_rect;
extern "C" __attribute__((noinline)) bool stub_segint_pt(const Point64& p1, const Point64& p2, const Point64& p3, const Point64& p4, Point64& ip) {
  int e = edge_of(&p3, &p4);
  VA(e >= 0); ASSUME(e >= 0);
  if (!proper_cross(p1, p2, p3, p4)) return false;
  // crossing point: on the edge, within one unit per axis of the true crossing (C18.d contract), cross-multiplied in 32 bits
  int32_t dx = (int32_t)(p2.x - p1.x), dy = (int32_t)(p2.y - p1.y);
  int64_t q = nd_range(-2048, 2048);
  if (e == 0 || e == 2) { int32_t X = (int32_t)(e == 0 ? g_rect.left : g_rect.right); ip.x = X; ip.y = q;
    int32_t lhs = ((int32_t)q - (int32_t)p1.y) * dx - dy * (X - (int32_t)p1.x); int32_t adx = dx < 0 ? -dx : dx;
    ASSUME(lhs <= adx && lhs >= -adx); ASSUME(q >= g_rect.top && q <= g_rect.bottom); }
  else { int32_t Y = (int32_t)(e == 1 ? g_rect.top : g_rect.bottom); ip.y = Y; ip.x = q;
    int32_t lhs = ((int32_t)q - (int32_t)p1.x) * dy - dx * (Y - (int32_t)p1.y); int32_t ady = dy < 0 ? -dy : dy;
    ASSUME(lhs <= ady && lhs >= -ady); ASSUME(q >= g_rect.left && q <= g_rect.right); }
  return true;
}
extern "C" void harness_lines_internal() {
  const int64_t L = (int64_t)1 << LIL;
  Rect64 r(nd_range(-L, L), nd_range(-L, L), nd_range(-L, L), nd_range(-L, L)); ASSUME(r.left + 4 < r.right && r.top + 4 < r.bottom);
  RectClipLines64& rc = *new RectClipLines64(r);
  g_rect = r; g_rp = rc.rect_as_path_.data(); rc.results_.reserve(4);
  Point64 a(nd_range(-L, L), nd_range(-L, L)), b(nd_range(-L, L), nd_range(-L, L));
  ASSUME(a != b);
  // general position: no end point on an edge line, the segment through no corner
  ASSUME(a.x != r.left && a.x != r.right && a.y != r.top && a.y != r.bottom && b.x != r.left && b.x != r.right && b.y != r.top && b.y != r.bottom);
  for (int k = 0; k < 4; ++k) ASSUME(orient(a, b, g_rp[k]) != 0);
  Path64 path; path.reserve(2); path.push_back(a); path.push_back(b);
  g_pool_n = 0;
  rc.ExecuteInternal(path);
  bool a_in = a.x > r.left && a.x < r.right && a.y > r.top && a.y < r.bottom, b_in = b.x > r.left && b.x < r.right && b.y > r.top && b.y < r.bottom;
  bool crosses = false; const int A[4] = {0, 0, 1, 2}, B[4] = {3, 1, 2, 3};
  for (int e = 0; e < 4; ++e) if (proper_cross(a, b, g_rp[A[e]], g_rp[B[e]])) crosses = true;
  size_t n = rc.results_.size();
  VA(n <= 1);
  // a piece exists exactly when part of the segment is inside the rectangle
  VA((n == 1) == (a_in || b_in || crosses));
  if (n == 1) {
    OutPt2* op = rc.results_[0]; VA(op != nullptr); ASSUME(op != nullptr);
    OutPt2* first = op->next;                         // GetPath starts at op->next
    VA(first->next == op && op->next == first && first != op);      // exactly two points
    const Point64& q0 = first->pt; const Point64& q1 = op->pt;
    // inside the closed rectangle
    VA(q0.x >= r.left && q0.x <= r.right && q0.y >= r.top && q0.y <= r.bottom && q1.x >= r.left && q1.x <= r.right && q1.y >= r.top && q1.y <= r.bottom);
    // each end is the input end point if that is inside, else a boundary point
    if (a_in) VA(q0 == a); else VA(q0.x == r.left || q0.x == r.right || q0.y == r.top || q0.y == r.bottom);
    if (b_in) VA(q1 == b); else VA(q1.x == r.left || q1.x == r.right || q1.y == r.top || q1.y == r.bottom);
    // input order and direction (weakly: a crossing point may be rounded by one unit)
    int32_t dir = (int32_t)(q1.x - q0.x) * (int32_t)(b.x - a.x) + (int32_t)(q1.y - q0.y) * (int32_t)(b.y - a.y);
    int32_t len1 = (b.x > a.x ? b.x - a.x : a.x - b.x) + (b.y > a.y ? b.y - a.y : a.y - b.y);
    VA(dir >= -2 * len1);
    // on the input segment within 1.5 units: |cross(a,b,q)| <= 1.5 * (|dx| + |dy|) bounds the distance by 1.5 * sqrt(2) ... use the per-axis contract
    int32_t c0 = orient(a, b, q0), c1 = orient(a, b, q1); if (c0 < 0) c0 = -c0; if (c1 < 0) c1 = -c1;
    int32_t adx = (int32_t)(b.x > a.x ? b.x - a.x : a.x - b.x), ady = (int32_t)(b.y > a.y ? b.y - a.y : a.y - b.y);
    VA(c0 <= (adx > ady ? adx : ady) && c1 <= (adx > ady ? adx : ady));      // |cross| <= max(|dx|,|dy|)  <=>  within one unit along an axis
  }
  verif_reach();
}
