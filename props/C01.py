# C01 - Boolean operations return the region defined by fill rule and clip type (mechanism-level obligations)
META = dict(
  level_text='Bounded model checking of the individual mechanisms the sweep uses to realise the fill-rule x clip-type semantics (contribution table, winding-count bookkeeping, one intersection step), each against the mathematical definition, for all symbolic pre-states within the stated bounds. The end-to-end statement over all geometry is NOT decided (symbolic geometry through the whole sweep does not terminate in symex); the composition of the mechanisms into it is the classical Vatti argument and is not machine checked.',
  level_note='Pre-states are constrained by the representation invariant (I) written in harness/eng_wind.cpp (edge counters = winding numbers of adjacent regions); (I) is itself shown to be established by SetWindCountForClosedPathEdge and preserved by IntersectEdges. Trusted: clang/opt, ir2c (self-tested), CBMC.',
  functions=['ClipperBase::IsContributingClosed', 'ClipperBase::SetWindCountForClosedPathEdge', 'ClipperBase::IntersectEdges (closed-path part)', 'SwapOutrecs'],
  assumptions=['AEL prefixes of at most 3 edges', '|winding numbers| <= 10^6', 'no joined edges in pre-states'],
  outside=['end-to-end region equality over all geometry', 'DoHorizontal, DoMaxima, BuildIntersectList ordering, CleanCollinear/FixSelfIntersects', 'coordinates near 2^61'],
)
STEP = {'Clipper2Lib::ClipperBase::AddLocalMaxPoly(': 'stub_maxpoly', 'Clipper2Lib::ClipperBase::AddLocalMinPoly(': 'stub_minpoly', 'Clipper2Lib::ClipperBase::AddOutPt(': 'stub_addoutpt'}
OBLIGATIONS = [
  O('C01.c-intersect-step', 'eng_wind.cpp', 'harness_intersect_step', replace=STEP, unwind=4, timeout=300, bound='two adjacent closed edges of any types/directions, left-region winding numbers |w|<=1000, all 16 clip-type x fill-rule configurations, both edges hot/cold as invariant (H) dictates, any front/back assignment', desc='after IntersectEdges the counters satisfy (I) and hotness satisfies (H) for the swapped order; a vertex is emitted iff a contour passes through the crossing'),
  O('C01.a-contributing-closed', 'eng_wind.cpp', 'harness_contrib_closed', bound='4 clip types x 4 fill rules x 2 path types x dir x |w|<=1e6', desc='IsContributingClosed(e) <=> result membership differs across e'),
  O('C01.a-noclip', 'eng_wind.cpp', 'harness_contrib_noclip', bound='all counters', desc='NoClip never contributes'),
  O('C01.b-setwind-closed', 'eng_wind.cpp', 'harness_setwind_closed', unwind=6, bound='AEL prefix k<=3 of closed/open edges, any types/directions', desc='SetWindCountForClosedPathEdge establishes invariant (I)'),
]
