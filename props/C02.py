# C02 - axis-parallel inputs are clipped exactly (mechanisms that keep rectilinear input exact)
META = dict(
  level_text='Bounded model checking, for all 64-bit coordinates up to 2^61, of the mechanisms that make rectilinear clipping rounding-free: a vertical edge reports its own x at every scanline and has slope exactly 0 (bit-precise IEEE division), a horizontal edge is classified by direction, TrimHorz merges a horizontal run up to the vertex the specification names (reversals kept iff PreserveCollinear, local maxima respected), ResetHorzDirection orders the extent. Cell-exactness of whole results needs the whole sweep (DoHorizontal, joins) and is not decided.',
  level_note='Vertex rings of 5 vertices for TrimHorz. ConvertHorzSegsToJoins / ProcessHorzJoins / Split are outside the claim.',
  functions=['GetLastOp', 'ClipperBase::AddOutPt', 'TopX', 'GetDx', 'SetDx', 'IsHorizontal', 'IsHeadingRightHorz/LeftHorz', 'TrimHorz', 'NextVertex', 'ClipperBase::ResetHorzDirection', 'ClipperBase::CheckJoinLeft', 'ClipperBase::CheckJoinRight'],
  assumptions=['|coordinates| <= 2^61', 'horizontal runs of at most 4 further vertices'],
  outside=['DoHorizontal as a whole, horizontal joins, per-cell exactness of results'],
)
JOIN = {'Clipper2Lib::ClipperBase::AddLocalMaxPoly(': 'stub_addlocalmaxpoly', 'Clipper2Lib::ClipperBase::JoinOutrecPaths(': 'stub_joinoutrecpaths',
        'double Clipper2Lib::PerpendicDistFromLineSqrd<long>(': 'stub_perpdist', 'bool Clipper2Lib::IsCollinear<long>(': 'stub_iscollinear_any'}
OBLIGATIONS = [
  O('C02.e-getlastop', 'eng_units.cpp', 'harness_getlastop', defs=['LN=3', 'G=4611686018427387904LL'], unwind=7, timeout=300, bound='ring of 3 output points, any coordinates in [0,2^62], front or back edge, any new point', desc='GetLastOp(e) (the point DoHorizontal registers for horizontal joins) is what AddOutPt(e, .) returned last; the other side and the ring links are intact'),
  O('C02.d-checkjoin', 'eng_units.cpp', 'harness_checkjoin', replace=JOIN, unwind=5, backend=['cadical', 'cvc5int', 'z3'], timeout=300, bound='two adjacent edges with arbitrary geometry |coord|<=2^20, hot/open/type flags, both directions, both check modes; distance kernel arbitrary', desc='a join is only ever made between two hot, closed, non-horizontal neighbours whose tops are collinear with pt (equal curr_x in the strict mode), and does exactly one contour operation'),
  O('C02.a-rectilinear-kernels', 'eng_units.cpp', 'harness_rectilinear_kernels', unwind=4, backend=['sat', 'cadical', 'kissat'], timeout=300, bound='all vertical / horizontal edges, |coord|<=2^61, every scanline y', desc='vertical edge: dx == 0 exactly and TopX == x at every y; horizontal edge: direction flags by sign of dx'),
  O('C02.b-trimhorz', 'eng_units.cpp', 'harness_trimhorz', defs=['HN=4'], unwind=8, bound='ring of 5 vertices, symbolic x, same-y pattern and LocalMax flags, both PreserveCollinear values', desc='TrimHorz ends at the vertex the specification names; dx re-set by direction'),
  O('C02.b-resethorz', 'eng_units.cpp', 'harness_resethorz', unwind=4, bound='all horizontal edges and curr_x', desc='ResetHorzDirection returns an ordered extent and the direction'),
]
