# C03 - closed solution paths are well formed (output clean-up mechanisms)
APP = {'Clipper2Lib::Point<long>& std::vector<Clipper2Lib::Point<long>, std::allocator<Clipper2Lib::Point<long> > >::emplace_back<Clipper2Lib::Point<long>&>(': 'stub_path_append'}
FIX = dict(APP, **{'Clipper2Lib::ClipperBase::FixSelfIntersects(': 'stub_fixself', 'bool Clipper2Lib::IsCollinear<long>(': 'stub_iscollinear',
       'double Clipper2Lib::DotProduct<long>(Clipper2Lib::Point<long> const&, Clipper2Lib::Point<long> const&, Clipper2Lib::Point<long> const&)': 'stub_dotproduct'})
META = dict(
  level_text='Bounded model checking of the real output clean-up pipeline CleanCollinear -> BuildPath64 from an ARBITRARY ring of output points (every ring the sweep could hand over, of the stated size, on the stated grid): if a path is emitted it has at least 3 vertices, no two consecutive vertices are equal (last/first included), with PreserveCollinear off no three consecutive vertices are collinear and with it on there is no 180-degree spike (exact 128-bit references), and every vertex lies in the bounding box of the ring. The clauses about crossings between different solution edges, orientation-vs-nesting and Union idempotence need the whole sweep and are not decided.',
  level_note='FixSelfIntersects is a no-op stub in the CleanCollinear harness (ring self-crossing repair is outside the claim). Rings of 4 points on a 4x4 grid in the quick tier; 5 and 6 points (smaller grid) in the thorough tier. IsCollinear/DotProduct are the real code (DotProduct doubles are exact at these magnitudes).',
  functions=['ClipperBase::CleanCollinear', 'IsValidClosedPath', 'IsVerySmallTriangle', 'PtsReallyClose', 'DisposeOutPt', 'DisposeOutPts', 'BuildPath64', 'IsCollinear<long>', 'DotProduct<long>'],
  assumptions=['ring size and grid as listed per obligation', 'PreserveCollinear and reverse symbolic'],
  outside=['FixSelfIntersects / DoSplitOp', 'crossings between solution edges, nesting/orientation, Union idempotence (whole sweep)'],
)
OBLIGATIONS = [
  O('C03.a-cleancollinear-4', 'eng_units.cpp', 'harness_cleancollinear', defs=['RN=4', 'G=3'], replace=FIX, unwind=9, no_checks=True, backend=['cadical', 'kissat'], tiers='x', timeout=3000, bound='rings of 4 points on [0,3]^2, any start point, both option values', desc='emitted path: >=3 vertices, no equal neighbours cyclically, no collinear triple (or no spike with PreserveCollinear), inside ring bounds'),
  O('C03.a-validclosed-3', 'eng_units.cpp', 'harness_validclosed', defs=['RN=3'], unwind=5, bound='rings of 3 points, |coord|<=2^61', desc='IsValidClosedPath <=> not a very small triangle'),
  O('C03.a-validclosed-2', 'eng_units.cpp', 'harness_validclosed', defs=['RN=2'], unwind=5, bound='rings of 2 points', desc='rings of fewer than 3 points are invalid'),
  O('C03.a-validclosed-4', 'eng_units.cpp', 'harness_validclosed', defs=['RN=4'], unwind=6, bound='rings of 4 points', desc='rings of 4 or more points are valid'),
  O('C03.a-buildpath-3', 'eng_units.cpp', 'harness_buildpath', defs=['RN=3', 'G=2'], replace=APP, unwind=8, bound='rings of 3 points on [0,2]^2, open/closed, both directions', desc='BuildPath64 on 3-rings (where the tiny-triangle filter can apply): closed tiny triangles rejected, open pieces never'),
  O('C03.a-buildpath-4', 'eng_units.cpp', 'harness_buildpath', defs=['RN=4', 'G=2'], replace=APP, unwind=8, bound='rings of 4 points on [0,2]^2, open/closed, both directions', desc='BuildPath64 drops repeated points and starts at the documented vertex'),
  O('C03.a-cleancollinear-5', 'eng_units.cpp', 'harness_cleancollinear', defs=['RN=5', 'G=2'], replace=FIX, unwind=16, backend=['cadical', 'kissat'], tiers='x', timeout=1800, bound='rings of 5 points on [0,2]^2', desc='as above'),
  O('C03.a-cleancollinear-6', 'eng_units.cpp', 'harness_cleancollinear', defs=['RN=6', 'G=2'], replace=FIX, unwind=20, backend=['cadical', 'kissat'], tiers='x', timeout=3000, bound='rings of 6 points on [0,2]^2', desc='as above'),
]
