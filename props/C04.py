# C04 - PolyTree solutions carry the same paths with correct nesting (ownership mechanisms)
META = dict(
  level_text='Bounded model checking of the ownership bookkeeping the polytree is built from: SetOwner never creates an ownership cycle from an arbitrary acyclic owner forest (all forests over 4 records, any pts/null pattern), and PolyPath Level/IsHole implement the depth-parity rule. Tree/paths equality, containment and area over all geometry need the whole sweep and are not decided.',
  level_note='RecursiveCheckOwners / CheckSplitOwner / Path1InsidePath2 over symbolic geometry are outside the claim.',
  functions=['SetOwner', 'PolyPath::Level', 'PolyPath::IsHole', 'PolyPath64::AddChild/Count/Parent', 'Clipper64::Execute (tree and paths, concrete geometry)', 'Clipper64::BuildTree64', 'ClipperBase::RecursiveCheckOwners', 'Path1InsidePath2'],
  assumptions=['4 output records', 'concrete 3-level tree for Level/IsHole'],
  outside=['RecursiveCheckOwners, CheckSplitOwner, Path1InsidePath2, BuildTree64 over symbolic geometry'],
)
OBLIGATIONS = [
  O('C04.f-checksplitowner-innermost', 'eng_units.cpp', 'harness_checksplitowner_innermost', replace={'Clipper2Lib::ClipperBase::CheckBounds(': 'stub_checkbounds_live', 'Clipper2Lib::Path1InsidePath2(Clipper2Lib::OutPt': 'stub_p1inp2_tab'}, unwind=6, timeout=300, bound='chain of three nested split records r0 > r1 > r2, all alive; every containment verdict consistent with the nesting', desc='CheckSplitOwner installs the innermost record containing the searching ring (none if none contains it)'),
] + [O('C04.e-tree-vs-paths-flags%d' % f, 'eng_whole.cpp', 'harness_tree_vs_paths', defs=['FLAGS=%d' % f], unwind=14, timeout=1500, object_bits=16, tiers='t', bound='square with a triangular hole (Difference); ReverseSolution=%d PreserveCollinear=%d' % (f & 1, (f >> 1) & 1), desc='tree execution yields the same two rings as paths execution; hole is a child of the outer, IsHole and orientation alternate (negated by ReverseSolution)') for f in range(4)] + [  O('C04.c-setowner-acyclic', 'eng_units.cpp', 'harness_setowner', unwind=8, bound='all owner forests over 4 records x all pts/null patterns x all (a,b)', desc='after SetOwner(a,b): a.owner == b and the owner relation is still acyclic'),
  O('C04.d-polypath-level', 'eng_units.cpp', 'harness_polypath_level', unwind=6, bound='concrete 3-level tree', desc='Level counts ancestors; IsHole <=> even non-zero level'),
]
