# C05 - open subject paths are cut exactly at the clip region boundary (mechanism-level obligations)
META = dict(
  level_text='Bounded model checking of the mechanisms that decide where open paths contribute (contribution predicate, winding numbers of the region an open edge starts in), against the definition in the property, for all symbolic pre-states within bounds. Piece geometry and total length over all inputs are not decided (whole sweep).',
  level_note='Same invariant (I) and trusted base as C01.',
  functions=['ClipperBase::IsContributingOpen', 'ClipperBase::SetWindCountForOpenPathEdge', 'AddPaths_ (open paths)', 'ClipperBase::IntersectEdges (open-path part)', 'BuildPath64 (open pieces)'],
  assumptions=['AEL prefixes of at most 3 edges', '|winding numbers| <= 10^6'],
  outside=['piece geometry and length (needs the whole sweep)'],
)
LMA = {'std::unique_ptr<Clipper2Lib::LocalMinima, std::default_delete<Clipper2Lib::LocalMinima> >& std::vector<std::unique_ptr<Clipper2Lib::LocalMinima, std::default_delete<Clipper2Lib::LocalMinima> >, std::allocator<std::unique_ptr<Clipper2Lib::LocalMinima, std::default_delete<Clipper2Lib::LocalMinima> > > >::emplace_back<std::unique_ptr<Clipper2Lib::LocalMinima': 'stub_locmin_append'}
OSTEP = {'Clipper2Lib::ClipperBase::AddOutPt(': 'stub_addoutpt', 'Clipper2Lib::ClipperBase::StartOpenPath(': 'stub_startopen'}
APP = {'Clipper2Lib::Point<long>& std::vector<Clipper2Lib::Point<long>, std::allocator<Clipper2Lib::Point<long> > >::emplace_back<Clipper2Lib::Point<long>&>(': 'stub_path_append'}
OBLIGATIONS = [
  O('C05.e-buildpath-open-3', 'eng_units.cpp', 'harness_buildpath', defs=['RN=3', 'G=2'], replace=APP, unwind=8, bound='output rings of 3 points on [0,2]^2, open and closed, both directions', desc='an open piece is always emitted (the tiny-triangle filter applies to closed paths only); repeated points dropped'),
  O('C05.c-intersect-open-step', 'eng_wind.cpp', 'harness_intersect_open_step', replace=OSTEP, unwind=4, timeout=300, bound='an open edge and a closed edge adjacent in either order; all clip types, fill rules, closed-edge type/direction, winding numbers |w|<=1000', desc='after IntersectEdges the open edge is hot exactly when it contributes on the far side of the closed edge; a point is emitted iff its contribution changed; the closed edge is untouched'),
  O('C05.d-addpaths-open-4', 'eng_units.cpp', 'harness_addpaths_open', defs=['ON=4'], replace=LMA, unwind=9, timeout=300, bound='open path of 4 vertices on [0,3]^2 (coincident vertices incl. last == first allowed)', desc='every vertex differing from its predecessor is kept in order; first flagged OpenStart, last OpenEnd; minima flagged open'),
  O('C05.a-contributing-open', 'eng_wind.cpp', 'harness_contrib_open', bound='4 clip types x 4 fill rules x |w|<=1e6', desc='IsContributingOpen == inside clip / outside both / outside clip'),
  O('C05.b-setwind-open', 'eng_wind.cpp', 'harness_setwind_open', unwind=6, bound='AEL prefix k<=3', desc='SetWindCountForOpenPathEdge computes winding numbers of the containing region'),
]
