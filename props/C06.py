# C06 - polygon offsetting moves the boundary by delta (control/sign logic only)
OFFW = {'Clipper2Lib::ClipperOffset::OffsetPolygon(': 'stub_polygon', 'Clipper2Lib::ClipperOffset::OffsetOpenJoined(': 'stub_joined',
        'Clipper2Lib::ClipperOffset::OffsetOpenPath(': 'stub_open', 'Clipper2Lib::ClipperOffset::BuildNormals(': 'stub_normals',
        'std::vector<Clipper2Lib::Point<long>, std::allocator<Clipper2Lib::Point<long> > > Clipper2Lib::Ellipse<long>(Clipper2Lib::Point<long> const&': 'stub_ellipse',
        'acos': 'stub_acos', 'sin': 'stub_sin', 'cos': 'stub_cos'}
ENG = {'Clipper2Lib::ClipperBase::AddPaths(': 'stub_addpaths', 'Clipper2Lib::ClipperBase::ExecuteInternal(': 'stub_execint',
       'Clipper2Lib::Clipper64::BuildPaths64(': 'stub_buildpaths64', 'Clipper2Lib::ClipperBase::CleanUp(': 'stub_cleanup'}
BOTH = dict(OFFW, **ENG)
BOTH['Clipper2Lib::ClipperOffset::CalcSolutionCapacity('] = 'stub_capacity'
BOTH['Clipper2Lib::Clipper64::BuildTree64('] = 'stub_buildtree64'
META = dict(
  level_text='Stub-and-observe model checking of the sign and orientation bookkeeping of polygon offsetting: for all deltas, join types and flags, a positively oriented polygon group is offset with the signed delta of the call, the clean-up union uses FillRule::Positive with ReverseSolution/PreserveCollinear forwarded unchanged, and |delta| < 0.5 hands the input paths to the union unchanged. The region clauses (distance bands for round/miter/square/bevel joins, over-shrink) depend on sqrt/sin/cos/acos/atan2 arithmetic followed by a full union and are NOT addressed: no symbolic engine on this image encodes them.',
  level_note='Workers and the inner Clipper64 are recorders; path coordinates are concrete; only scalar parameters are symbolic. This is a mechanism-level claim about join-side/sign handling, not about geometry.',
  functions=['ClipperOffset::OffsetPoint', 'ClipperOffset::DoBevel', 'ClipperOffset::DoMiter', 'ClipperOffset::MiterLimit / temp_lim_', 'ClipperOffset::OffsetPoint', 'GetPerpendic', 'ClipperOffset::ExecuteInternal', 'ClipperOffset::DoGroupOffset', 'ClipperOffset::Group::Group', 'ClipperOffset::CheckReverseOrientation'],
  assumptions=['one or two groups of concrete small paths'],
  outside=['all region/distance clauses', 'DoRound/DoMiter/DoSquare/DoBevel geometry', 'normals other than the eight exact directions'],
)
JOINS = {'Clipper2Lib::ClipperOffset::DoMiter(': 'stub_domiter', 'Clipper2Lib::ClipperOffset::DoSquare(': 'stub_dosquare', 'Clipper2Lib::ClipperOffset::DoRound(': 'stub_doround',
         'Clipper2Lib::ClipperOffset::DoBevel(': 'stub_dobevel', 'atan2': 'stub_atan2',
         'Clipper2Lib::Point<long>& std::vector<Clipper2Lib::Point<long>, std::allocator<Clipper2Lib::Point<long> > >::emplace_back<Clipper2Lib::Point<long> >(': 'stub_pathout_append',
         'Clipper2Lib::Point<long>& std::vector<Clipper2Lib::Point<long>, std::allocator<Clipper2Lib::Point<long> > >::emplace_back<Clipper2Lib::Point<long> const&>(': 'stub_pathout_append_c'}
OBLIGATIONS = [
  O('C06.a-offsetpoint-join-selection', 'off_dispatch.cpp', 'harness_offsetpoint', replace=JOINS, unwind=8, backend=['cadical', 'kissat', 'sat'], flags=['--slice-formula'], timeout=600, bound='unit normals from 8 exact directions (axis-parallel and 3-4-5), all deltas 0.5..1e6 of either sign, all join types, miter limits 0..10', desc='OffsetPoint: a turn towards the offset side (sin_a*delta < 0, not a near-reversal) emits exactly three points and calls no join worker; any other turn calls exactly one worker: miter when almost straight or within the miter limit, else square; round, bevel, square as requested'),
  O('C06.a-offsetpoint-concave-coords', 'off_dispatch.cpp', 'harness_offsetpoint', defs=['OP_COORDS'], replace=JOINS, unwind=8, backend=['cadical', 'kissat', 'sat'], flags=['--slice-formula'], timeout=600, bound='as above with delta from {0.5,-0.5,3.25,-7,1e6,-1e6}', desc='the three points of a concave join are: vertex + previous normal*delta, the vertex itself, vertex + this normal*delta'),
  O('C06.c-polygon-rules-reversed-3', 'off_dispatch.cpp', 'harness_dispatch_rules', defs=['LEN1=3', 'REVERSED'], replace=OFFW, unwind=8, bound='one negatively oriented triangle (reversed convention), all deltas (inflate up to 1e6)', desc='a negatively oriented polygon group is offset with the negated delta and is never dropped when inflating'),
  O('C06.c-polygon-rules-reversed-4', 'off_dispatch.cpp', 'harness_dispatch_rules', defs=['LEN1=4', 'REVERSED'], replace=OFFW, unwind=8, tiers='t', bound='one negatively oriented quadrilateral', desc='as above'),
  O('C06.c-orientation-bookkeeping', 'off_dispatch.cpp', 'harness_groups_independent', defs=['LEN0=3'], replace=BOTH, unwind=8, bound='two groups (triangle, triangle), all deltas / join / end types / flags', desc='signed delta reaches the Polygon worker; union = Positive fill, ReverseSolution and PreserveCollinear forwarded'),
  O('C06.b-miter-limit-in-force', 'off_dispatch.cpp', 'harness_miter_limit_in_force', replace=BOTH, unwind=8, flags=['--slice-formula'], timeout=600, bound='miter limits from {0.5,1,1.5,2,4,10} at construction and set twice through MiterLimit(); three Executes (paths, paths, tree) on one object; all deltas', desc='the miter/square threshold (2/limit^2, 2 for limits <= 1) used during an Execute is that of the limit in force at that call'),
  O('C06.a-bevel-join-points', 'off_dispatch.cpp', 'harness_join_geometry', defs=['JGEOM=0'], unwind=8, flags=['--slice-formula'], backend=['sat', 'cadical', 'kissat'], timeout=600, bound='normals from 8 exact directions, delta in 5*{1,-1,2,25,-200,100000}', desc='bevel join: exactly the points vertex + delta*normal of the two edges (integer oracle)'),
  O('C06.a-miter-point-on-both-offset-lines', 'off_dispatch.cpp', 'harness_join_geometry', defs=['JGEOM=2'], unwind=8, flags=['--slice-formula'], backend=['sat', 'cadical', 'kissat'], timeout=900, bound='as above, all non-reversing pairs of directions', desc='miter join: the point lies on both offset lines, (p-v).n = delta for both normals up to the integer rounding of p (integer oracle)'),
  O('C06.d-tiny-delta', 'off_dispatch.cpp', 'harness_tiny_delta', replace=BOTH, unwind=8, bound='|delta| < 0.5, all join/end types', desc='no offsetting worker runs; the input paths go to the union unchanged'),
  O('C06.c-polygon-rules-4', 'off_dispatch.cpp', 'harness_dispatch_rules', defs=['LEN1=4'], replace=OFFW, unwind=8, bound='one 4-point polygon, all deltas', desc='Polygon end type: OffsetPolygon with group delta == delta'),
]
