# C07 - open-path offsetting: per-path dispatch, caps selection, +-delta symmetry, single points (control logic)
OFFW = {'Clipper2Lib::ClipperOffset::OffsetPolygon(': 'stub_polygon', 'Clipper2Lib::ClipperOffset::OffsetOpenJoined(': 'stub_joined',
        'Clipper2Lib::ClipperOffset::OffsetOpenPath(': 'stub_open', 'Clipper2Lib::ClipperOffset::BuildNormals(': 'stub_normals',
        'std::vector<Clipper2Lib::Point<long>, std::allocator<Clipper2Lib::Point<long> > > Clipper2Lib::Ellipse<long>(Clipper2Lib::Point<long> const&': 'stub_ellipse',
        'acos': 'stub_acos', 'sin': 'stub_sin', 'cos': 'stub_cos'}
META = dict(
  level_text='Stub-and-observe model checking of the real ClipperOffset::DoGroupOffset / Group constructor: for all deltas (either sign, 0.5..1e6), join types, end types and arc tolerances, on concrete path shapes (1-4 points), the solver shows which worker is invoked with which end type, join type and group delta, that this is the same whether or not other paths were offset before in the same group, that open end types use |delta|, and the single-point shapes. The stroke/cap geometry (sqrt/sin/cos/acos/atan2 arithmetic followed by a union) is outside this family of technique on this image.',
  level_note='Workers (OffsetPolygon/OffsetOpenJoined/OffsetOpenPath/BuildNormals/Ellipse) are recorders; acos/sin/cos return arbitrary values in their ranges; path coordinates are concrete, all scalar parameters symbolic. Region clauses of the property (distance bands, cap shapes) are NOT addressed.',
  functions=['ClipperOffset::DoGroupOffset', 'ClipperOffset::Group::Group', 'GetLowestClosedPathIdx', 'StripDuplicates'],
  assumptions=['path shapes: lengths 1..4, concrete coordinates', '0.5 <= |delta| <= 1e6, 0 <= arc_tolerance <= 100'],
  outside=['every region/distance clause', 'DoRound/DoSquare/DoBevel/DoMiter geometry', 'delta callbacks'],
)
OBLIGATIONS = [O('C07.a-group-ctor', 'off_dispatch.cpp', 'harness_group_ctor', unwind=8, bound='path A B B C A, all end/join types', desc='Polygon and Joined groups strip the closing duplicate (closed paths), open end types keep it')]
for (l0, l1, tier) in [(2, 3, 'qt'), (1, 3, 'qt'), (3, 2, 't'), (2, 2, 't'), (2, 1, 't'), (4, 3, 't')]:
    OBLIGATIONS.append(O('C07.a-dispatch-independent-%d-%d' % (l0, l1), 'off_dispatch.cpp', 'harness_dispatch_independent', defs=['LEN0=%d' % l0, 'LEN1=%d' % l1], replace=OFFW, unwind=8, tiers=tier,
                         bound='group of two paths with %d and %d points; all join/end types, deltas, arc tolerances' % (l0, l1),
                         desc='the worker, end type, join type and group delta used for the second path equal those used when it is offset alone'))
for (l1, tier) in [(3, 'qt'), (2, 'qt'), (1, 'qt'), (4, 't')]:
    OBLIGATIONS.append(O('C07.bcd-dispatch-rules-%d' % l1, 'off_dispatch.cpp', 'harness_dispatch_rules', defs=['LEN1=%d' % l1], replace=OFFW, unwind=8, tiers=tier,
                         bound='one path of %d points; all join/end types, deltas' % l1,
                         desc='Polygon uses signed delta, open end types |delta|; 2-point Joined becomes Square/Round-capped open path; single points become circle / ceil(|delta|) square or are skipped below 1'))
OBLIGATIONS.append(O('C07.e-offsetopenpath-sequence', 'off_dispatch.cpp', 'harness_offsetopenpath', replace={'Clipper2Lib::ClipperOffset::DoSquare(': 'stub_ev_square', 'Clipper2Lib::ClipperOffset::DoRound(': 'stub_ev_round', 'Clipper2Lib::ClipperOffset::DoBevel(': 'stub_ev_bevel', 'Clipper2Lib::ClipperOffset::OffsetPoint(': 'stub_ev_offsetpoint'}, unwind=8, flags=['--slice-formula'], timeout=600, bound='open path of 4 vertices, arbitrary finite normals, delta in [0.5,1e6], end types Butt/Square/Round, all join types', desc='OffsetOpenPath: start cap, left side forward, normals reversed, end cap, right side backward; Butt = bevel cap, Round = half circle, Square = square cap; one path appended'))
OBLIGATIONS.append(O('C07.e-offsetopenjoined-sequence', 'off_dispatch.cpp', 'harness_offsetopenjoined', replace={'Clipper2Lib::ClipperOffset::OffsetPoint(': 'stub_jev_offsetpoint'}, unwind=8, flags=['--slice-formula'], timeout=600, bound='open path of 3 vertices, arbitrary finite normals, delta in [0.5,1e6], all join types', desc='OffsetOpenJoined: polygon walk of the path (every vertex once with its cyclic predecessor), then of the reversed path with normals (-n1,-n0,-n2); two paths appended'))
OBLIGATIONS.append(O('C07.e-butt-cap-points', 'off_dispatch.cpp', 'harness_join_geometry', defs=['JGEOM=1'], unwind=8, flags=['--slice-formula'], backend=['sat', 'cadical', 'kissat'], timeout=600, bound='normals from 8 exact directions, delta in 5*{1,-1,2,25,-200,100000}', desc='butt cap: exactly the points end vertex -/+ |delta|*normal (integer oracle)'))
