# C08 - RectClip equals intersection with the rectangle, path by path (mechanism-level)
ADD = {'Clipper2Lib::RectClip64::Add(': 'stub_add'}
EXE = {'Clipper2Lib::RectClip64::ExecuteInternal(': 'stub_rc_execint', 'Clipper2Lib::RectClip64::CheckEdges(': 'stub_rc_checkedges',
       'Clipper2Lib::RectClip64::TidyEdges(': 'stub_rc_tidy', 'Clipper2Lib::RectClip64::GetPath(': 'stub_rc_getpath'}
META = dict(
  level_text='Bounded model checking of the mechanisms of RectClip64 against their specification, for all rectangles and coordinates up to 2^40: point/rectangle location classification, the vertex-skipping state step GetNextLocation (which vertices are output, where the walk stops and in which region), and the bounds shortcuts of Execute (inside => unchanged, disjoint => nothing). The winding-number equality of whole results over all paths is NOT decided: the location state machine over std::deque/vector with symbolic control flow exceeds what CBMC finishes here.',
  level_note='RectClip64::Add is a recorder in the GetNextLocation harness; ExecuteInternal/CheckEdges/TidyEdges/GetPath are recorders in the shortcut harness. Corner insertion, CheckEdges/TidyEdges splitting and rejoining are outside the claim.',
  functions=['GetLocation', 'RectClip64::GetNextLocation', 'RectClip64::Execute (bounds shortcuts)', 'GetBounds<long>', 'Rect64::Intersects/Contains'],
  assumptions=['|coordinates| <= 2^40, non-empty rectangle', 'paths of 3 vertices'],
  outside=['ExecuteInternal corner logic, GetIntersection, CheckEdges/TidyEdges, Path1ContainsPath2', 'end-to-end winding-number equality'],
)
SEG = {'Clipper2Lib::GetSegmentIntersection(': 'stub_segint'}
OBLIGATIONS = [
] + [O('C08.a-getintersection-closest-loc%d' % l, 'rect_units.cpp', 'harness_getintersection', defs=['LOC0=%d' % l, 'GIL=4'], replace=SEG, unwind=6, backend=['kissat', 'cadical'], timeout=300, tiers='qt' if l in (0, 3) else 't', bound='all rectangles and segments with |coord|<=16 in general position, p strictly in half-plane %d (0=Left,1=Top,2=Right,3=Bottom)' % l, desc='GetIntersection succeeds iff the segment properly crosses the rectangle boundary and reports the entry edge (the crossing closest to p)') for l in range(4)] + [  O('C08.a-getlocation', 'rect_units.cpp', 'harness_getlocation', bound='all rectangles/points up to 2^40', desc='GetLocation: returns false exactly on the boundary; loc names a region containing the point'),
  O('C08.a-getnextlocation', 'rect_units.cpp', 'harness_getnextlocation', replace=ADD, unwind=10, bound='3-vertex path, any start index and start location', desc='skipped vertices stay in the start region, inside vertices are output, the stop vertex lies in the named region (strictly outside when leaving Inside)'),
  O('C08.b-execute-shortcuts', 'rect_units.cpp', 'harness_execute_shortcuts', replace=EXE, unwind=10, bound='one triangle, all coordinates up to 2^40', desc='bounds inside => path returned unchanged; bounds disjoint => nothing; otherwise the clipper proper runs once'),
]
