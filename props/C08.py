# C08 - RectClip equals intersection with the rectangle, path by path (mechanism-level)
ADD = {'Clipper2Lib::RectClip64::Add(': 'stub_add'}
EXE = {'Clipper2Lib::RectClip64::ExecuteInternal(': 'stub_rc_execint', 'Clipper2Lib::RectClip64::CheckEdges(': 'stub_rc_checkedges',
       'Clipper2Lib::RectClip64::TidyEdges(': 'stub_rc_tidy', 'Clipper2Lib::RectClip64::GetPath(': 'stub_rc_getpath'}
META = dict(
  level_text='Bounded model checking of the mechanisms of RectClip64 against their specification, for all rectangles and coordinates up to 2^40: point/rectangle location classification, the vertex-skipping state step GetNextLocation (which vertices are output, where the walk stops and in which region), and the bounds shortcuts of Execute (inside => unchanged, disjoint => nothing). The winding-number equality of whole results over all paths is NOT decided: the location state machine over std::deque/vector with symbolic control flow exceeds what CBMC finishes here.',
  level_note='RectClip64::Add is a recorder in the GetNextLocation harness; ExecuteInternal/CheckEdges/TidyEdges/GetPath are recorders in the shortcut harness. Corner insertion, CheckEdges/TidyEdges splitting and rejoining are outside the claim.',
  functions=['GetLocation', 'RectClip64::GetNextLocation', 'RectClip64::Execute (bounds shortcuts)', 'GetBounds<long>', 'Rect64::Intersects/Contains'],
  assumptions=['|coordinates| <= 2^40, non-empty rectangle', 'paths of 3 vertices'],
  outside=['ExecuteInternal corner logic, GetIntersection, CheckEdges/TidyEdges, Path1ContainsPath2', 'end-to-end winding-number equality'],
)
OBLIGATIONS = [
  O('C08.a-getlocation', 'rect_units.cpp', 'harness_getlocation', bound='all rectangles/points up to 2^40', desc='GetLocation: returns false exactly on the boundary; loc names a region containing the point'),
  O('C08.a-getnextlocation', 'rect_units.cpp', 'harness_getnextlocation', replace=ADD, unwind=10, bound='3-vertex path, any start index and start location', desc='skipped vertices stay in the start region, inside vertices are output, the stop vertex lies in the named region (strictly outside when leaving Inside)'),
  O('C08.b-execute-shortcuts', 'rect_units.cpp', 'harness_execute_shortcuts', replace=EXE, unwind=10, bound='one triangle, all coordinates up to 2^40', desc='bounds inside => path returned unchanged; bounds disjoint => nothing; otherwise the clipper proper runs once'),
]
