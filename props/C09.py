# C09 - RectClipLines returns exactly the parts of each polyline inside the rectangle (mechanism-level)
ADD = {'Clipper2Lib::RectClip64::Add(': 'stub_add'}
META = dict(
  level_text='Bounded model checking of the vertex-skipping state step shared by RectClipLines64 and RectClip64 (GetNextLocation: which vertices are emitted, where the walk stops, in which region) and of the location classification, for all rectangles and coordinates up to 2^40. Piece geometry and length over all polylines are not decided end-to-end.',
  level_note='RectClip64::Add is a recorder. GetIntersection / GetSegmentIntersectPt accuracy is C18\'s subject (and has a known finding).',
  functions=['RectClip64::GetNextLocation (used by RectClipLines64::ExecuteInternal)', 'GetLocation'],
  assumptions=['|coordinates| <= 2^40, non-empty rectangle, 3-vertex polyline'],
  outside=['RectClipLines64::ExecuteInternal as a whole, GetPath, crossing-point accuracy'],
)
OBLIGATIONS = [
  O('C09.b-getnextlocation', 'rect_units.cpp', 'harness_getnextlocation', replace=ADD, unwind=10, bound='3-vertex polyline, any start index and start location', desc='skipped vertices stay in the start region; inside vertices are emitted in input order; the stop vertex lies in the named region'),
  O('C09.b-getlocation', 'rect_units.cpp', 'harness_getlocation', bound='all rectangles/points up to 2^40', desc='boundary points are classified as on the rectangle (kept), others by region'),
]
