# C09 - RectClipLines returns exactly the parts of each polyline inside the rectangle (mechanism-level)
ADD = {'Clipper2Lib::RectClip64::Add(': 'stub_add'}
META = dict(
  level_text='Bounded model checking of the vertex-skipping state step shared by RectClipLines64 and RectClip64 (GetNextLocation: which vertices are emitted, where the walk stops, in which region) and of the location classification, for all rectangles and coordinates up to 2^40. Piece geometry and length over all polylines are not decided end-to-end.',
  level_note='RectClip64::Add is a recorder. GetIntersection / GetSegmentIntersectPt accuracy is C18\'s subject (and has a known finding).',
  functions=['GetIntersection', 'RectClipLines64::Execute/ExecuteInternal/GetPath (sequence harness)', 'RectClip64::GetNextLocation (used by RectClipLines64::ExecuteInternal)', 'GetLocation'],
  assumptions=['|coordinates| <= 2^40, non-empty rectangle, 3-vertex polyline'],
  outside=['RectClipLines64::ExecuteInternal as a whole, GetPath, crossing-point accuracy'],
)
SEG = {'Clipper2Lib::GetSegmentIntersection(': 'stub_segint'}
WHOLE = {'Clipper2Lib::GetSegmentIntersection(': 'stub_segint_pt',
         'Clipper2Lib::OutPt2& std::deque<Clipper2Lib::OutPt2, std::allocator<Clipper2Lib::OutPt2> >::emplace_back<Clipper2Lib::OutPt2>(': 'stub_pool_outpt2',
         'Clipper2Lib::OutPt2*& std::vector<Clipper2Lib::OutPt2*, std::allocator<Clipper2Lib::OutPt2*> >::emplace_back<Clipper2Lib::OutPt2*&>(': 'stub_oplist_append'}
OBLIGATIONS = [
  O('C09.a-lines-internal-symbolic', 'rect_units.cpp', 'harness_lines_internal', defs=['LIL=5'], replace=WHOLE, unwind=4, unwindset=['_ZN11Clipper2Lib10RectClip64C2ERKNS_4RectIlEE.0:9', '_ZNSt11_Deque_baseIN11Clipper2Lib6OutPt2ESaIS1_EE15_M_create_nodesEPPS1_S5_.0:3', 'harness_lines_internal.0:5', 'harness_lines_internal.1:5', 'harness_lines_internal.2:5'], backend=['kissat', 'cadical'], timeout=1500, tiers='x', bound='one segment and one rectangle, all coordinates |c|<=32, general position', desc='whole RectClipLines64::ExecuteInternal: at most one piece; a piece exists iff part of the segment is inside; its ends are the inside input end points or boundary points; inside the rectangle; in input direction; within one unit of the input line'),
] + [O('C09.b-getintersection-closest-loc%d' % l, 'rect_units.cpp', 'harness_getintersection', defs=['LOC0=%d' % l, 'GIL=4'], replace=SEG, unwind=6, backend=['kissat', 'cadical'], timeout=300, tiers='qt' if l in (0, 3) else 't', bound='all rectangles and segments with |coord|<=16 in general position, p strictly in half-plane %d (0=Left,1=Top,2=Right,3=Bottom)' % l, desc='GetIntersection succeeds iff the segment properly crosses the rectangle boundary and reports the entry edge (the crossing closest to p)') for l in range(4)] + [  O('C09.a-lines-sequence', 'rect_units.cpp', 'harness_lines_sequence', unwind=12, timeout=300, bound='a crossing line (symbolic y), a single point inside (symbolic), an inside segment; two Execute calls', desc='RectClipLines64::Execute returns the two pieces, is memory safe on one-point paths and repeats on the same object'),
  O('C09.b-getnextlocation', 'rect_units.cpp', 'harness_getnextlocation', replace=ADD, unwind=10, bound='3-vertex polyline, any start index and start location', desc='skipped vertices stay in the start region; inside vertices are emitted in input order; the stop vertex lies in the named region'),
  O('C09.b-getlocation', 'rect_units.cpp', 'harness_getlocation', bound='all rectangles/points up to 2^40', desc='boundary points are classified as on the rectangle (kept), others by region'),
]
OBLIGATIONS.append(O('C09.c-crossproduct-no-overflow', 'c18_segpt.cpp', 'harness_crossproduct_no_overflow_40', nsw=True, unwind=4, timeout=300, bound='three points with |coordinates| <= 2^40', desc='CrossProduct / DotProduct (the sign tests of GetSegmentIntersection) do no signed 64-bit arithmetic that can overflow in the rectangle-clipping coordinate range'))
