# C11 - execution succeeds on valid input; invalid arguments are reported (no-exceptions configuration)
MATH = {'pow': 'stub_pow', 'ilogb': 'stub_ilogb'}
ENG = dict(MATH, **{'Clipper2Lib::ClipperBase::AddPaths(': 'stub_addpaths', 'Clipper2Lib::ClipperBase::ExecuteInternal(': 'stub_execint',
       'Clipper2Lib::ClipperD::BuildPathsD(': 'stub_buildpathsD', 'Clipper2Lib::ClipperBase::CleanUp(': 'stub_cleanup'})
OFF = dict(MATH, **{'Clipper2Lib::ClipperOffset::AddPaths(': 'stub_off_addpaths',
       'Clipper2Lib::ClipperOffset::Execute(double, std::vector<std::vector<Clipper2Lib::Point<long>': 'stub_off_execute'})
META = dict(
  level_text='Bounded model checking of the real validation code (CheckPrecisionRange, ScalePaths range check, ScalePath zero-scale check, the PathsD wrappers, NoClip) for all argument values: bit-precise IEEE doubles for the range checks, all 2^32 precision values. The wrappers are checked by stub-and-observe (engine replaced by recorders at IR level).',
  level_note='Configuration checked: exceptions disabled (-fno-exceptions), where DoError is a no-op and errors are reported through error codes / empty results; the throwing configuration is outside the claim (the translator does not lower invoke/landingpad). std::pow/std::ilogb are replaced by table contracts validated natively each run (self-test). The success clause "Execute returns true for every input" is addressed only through its mechanisms (see C01/C03 obligations), not end-to-end.',
  functions=['BooleanOp_PolyTree64', 'BooleanOpD', 'BooleanOp_PolyTreeD (argument validation)', 'CheckPrecisionRange', 'ScalePaths<long,double>', 'ScalePath<long,double>', 'GetBounds<double,double>', 'BooleanOp(PathsD)', 'InflatePaths(PathsD)', 'ClipperD::ClipperD', 'ClipperD::AddSubject/AddClip', 'Clipper64::Execute(NoClip)'],
  assumptions=['finite (non-NaN, non-infinite) input doubles', 'scale 100 (precision 2) for the ScalePaths range obligation', 'one path of two points for the range obligation'],
  outside=['builds with C++ exceptions enabled', 'Execute returns true for all geometry (end-to-end)', 'odd number of coordinates (MakePath) - compile-time/static_assert path'],
)
OBLIGATIONS = [
  O('C11.c-check-precision', 'c11_args.cpp', 'harness_check_precision', bound='all 2^32 precisions x all prior error codes', desc='CheckPrecisionRange flags exactly |precision|>8, clamps, keeps other error bits'),
  O('C11.c-scalepaths-range', 'c11_args.cpp', 'harness_scalepaths_range', unwind=4, backend=['cadical', 'kissat'], tiers='t', timeout=900, bound='1 path x 2 points, all finite doubles, scale 100', desc='range_error_i set and result empty iff some scaled coordinate leaves +-MAX_COORD; otherwise round-to-nearest of x*scale'),
  O('C11.c-getbounds-d', 'c11_args.cpp', 'harness_getbounds_d', unwind=4, bound='2 paths (2+1 points), all finite doubles', desc='GetBounds<double,double> (the rectangle the range check tests) is the exact min/max over all vertices'),
  O('C11.c-scalepath-zero', 'c11_args.cpp', 'harness_scalepath_zero', unwind=4, bound='all scales in +-1e6', desc='scale_error_i iff a scale is zero'),
  O('C11.c-booleanop-d-badprec', 'c11_args.cpp', 'harness_booleanop_d_badprec', replace=ENG, unwind=5, bound='all |precision|>8', desc='BooleanOp(PathsD) returns empty and never touches the engine'),
  O('C11.c-inflate-d-badprec', 'c11_args.cpp', 'harness_inflate_d_badprec', replace=OFF, unwind=5, bound='all |precision|>8, delta != 0', desc='InflatePaths(PathsD) returns empty and never touches the offsetter'),
  O('C11.b-noclip-d', 'c11_args.cpp', 'harness_noclip_d', replace=MATH, unwind=19, timeout=300, bound='one concrete triangle, all fill rules, non-empty solution containers on entry, paths and tree overloads', desc='ClipperD::Execute(NoClip) returns true and empties both solutions'),
  O('C11.b-noclip', 'c11_args.cpp', 'harness_noclip', unwind=12, bound='one concrete triangle, all fill rules', desc='Execute(NoClip) returns true and clears both solutions'),
]
ARGS17 = {'Clipper2Lib::ClipperBase::AddPaths(': 'stub_addpaths', 'Clipper2Lib::ClipperBase::ExecuteInternal(': 'stub_execint', 'Clipper2Lib::Clipper64::BuildPaths64(': 'stub_buildpaths64', 'Clipper2Lib::ClipperBase::CleanUp(': 'stub_cleanup',
          'Clipper2Lib::Clipper64::BuildTree64(': 'stub_buildtree64', 'Clipper2Lib::ClipperD::BuildTreeD(': 'stub_buildtreeD', 'Clipper2Lib::ClipperD::BuildPathsD(': 'stub_buildpathsD', 'pow': 'stub_pow_w', 'ilogb': 'stub_ilogb_w'}
OBLIGATIONS += [O('C11.d-export-args-%s' % nm, 'c17_export.cpp', 'harness_booleanop_args', defs=['BFN=%d' % k], replace=ARGS17, unwind=19, timeout=600, bound='all cliptype/fillrule bytes, precisions -12..12, both flags', desc='%s reports out-of-range precision / clip type / fill rule by its documented code before the engine is touched and returns 0 for every valid combination (shared with C17.c)' % nm) for k, nm in ((1, 'BooleanOp_PolyTree64'), (2, 'BooleanOpD'), (3, 'BooleanOp_PolyTreeD'))]
