# C12 - results depend only on current inputs, not on an object's history
OFFW = {'Clipper2Lib::ClipperOffset::OffsetPolygon(': 'stub_polygon', 'Clipper2Lib::ClipperOffset::OffsetOpenJoined(': 'stub_joined',
        'Clipper2Lib::ClipperOffset::OffsetOpenPath(': 'stub_open', 'Clipper2Lib::ClipperOffset::BuildNormals(': 'stub_normals',
        'std::vector<Clipper2Lib::Point<long>, std::allocator<Clipper2Lib::Point<long> > > Clipper2Lib::Ellipse<long>(Clipper2Lib::Point<long> const&': 'stub_ellipse',
        'acos': 'stub_acos', 'sin': 'stub_sin', 'cos': 'stub_cos'}
ENG = {'Clipper2Lib::ClipperBase::AddPaths(': 'stub_addpaths', 'Clipper2Lib::ClipperBase::ExecuteInternal(': 'stub_execint',
       'Clipper2Lib::Clipper64::BuildPaths64(': 'stub_buildpaths64', 'Clipper2Lib::ClipperBase::CleanUp(': 'stub_cleanup'}
BOTH = dict(OFFW, **ENG)
BOTH['Clipper2Lib::ClipperOffset::CalcSolutionCapacity('] = 'stub_capacity'
BOTH['Clipper2Lib::Clipper64::BuildTree64('] = 'stub_buildtree64'
META = dict(
  level_text='Model checking of the state-handling mechanisms the property depends on: (offsetting) stub-and-observe of ClipperOffset::Execute/DoGroupOffset showing that what is done to a path or group does not depend on the paths/groups processed before it; (engine) the scratch state a history can leave behind is made symbolic and one Execute on concrete geometry must produce the result of a fresh object; CleanUp()/Clear() empty every per-execution container.',
  level_note='History is not enumerated: instead the state a history can leave behind is havocked (symbolic scalars, poisoned pointers). Geometry is concrete (corpus listed in evidence); the quantifier is over left-behind state, option values, delta/join/end types.',
  functions=['ClipperOffset::Execute(double, PolyTree64&) / (double, Paths64&)', 'ClipperOffset::ExecuteInternal', 'ClipperOffset::DoGroupOffset', 'ClipperOffset::Group::Group', 'ClipperBase::CleanUp', 'ClipperBase::Clear', 'ClipperBase::Reset', 'Clipper64::Execute', 'RectClip64::Execute (per-path clean-up)'],
  assumptions=['concrete small geometries', '0.5 <= |delta| <= 1e6'],
  outside=['sequences of AddSubject/Execute over symbolic geometry', 'RectClip64 per-path clean-up (see C08)'],
)
EXE = {'Clipper2Lib::RectClip64::ExecuteInternal(': 'stub_rc_execint', 'Clipper2Lib::RectClip64::CheckEdges(': 'stub_rc_checkedges',
       'Clipper2Lib::RectClip64::TidyEdges(': 'stub_rc_tidy', 'Clipper2Lib::RectClip64::GetPath(': 'stub_rc_getpath'}
OBLIGATIONS = [
  O('C12.c-reuse-vs-fresh', 'eng_whole.cpp', 'harness_reuse_vs_fresh', unwind=14, timeout=1800, object_bits=16, tiers='t', bound='AddSubject, Execute(Union), AddReuseableData(shared container), Execute(Intersection) vs fresh objects; two crossing triangles', desc='a used clipper given shared reusable data returns what a fresh clipper returns; the container is unchanged'),
  O('C12.a-history-vs-fresh', 'eng_whole.cpp', 'harness_history_vs_fresh', unwind=14, timeout=1800, object_bits=16, tiers='t', bound='AddSubject, Execute(Union), havoc of cliptype_/fillrule_/bot_y_/using_polytree_/succeeded_/sel_ and of all writable globals, AddClip, Execute(Intersection), Execute again; two crossing triangles', desc='the used object returns exactly what a fresh object returns, and repeats it bit-identically'),
  O('C12.b-clear-vs-fresh', 'eng_whole.cpp', 'harness_clear_vs_fresh', unwind=14, timeout=1800, object_bits=16, tiers='t', bound='closed+open subjects, Execute, Clear(), new subject+clip, Execute', desc='Clear() empties minima/vertex lists and flags; afterwards the object behaves like a fresh one'),
] + [O('C12.f-rectclip-perpath-cleanup-res%d' % r, 'rect_units.cpp', 'harness_perpath_cleanup', defs=['RES=%d' % r], replace=EXE, unwind=10, tiers='qt' if r in (1, 6) else 't', bound='two paths in one Execute; residue pattern %d (bits: start locations 0-2, result ring + edge entry)' % r, desc='RectClip64::Execute empties results_, edges_, start_locs_, op_container_ after every path, whatever the path left behind') for r in (0, 1, 2, 4, 5, 6)] + [
  O('C12.e-groups-independent-empty-first', 'off_dispatch.cpp', 'harness_groups_independent', defs=['LEN0=0'], replace=BOTH, unwind=8, bound='group 1: one empty path (any end type); group 2: triangle; all deltas, join/end types, flags', desc='the second group is offset with the delta of the call (sign included) whatever group came first; clean-up union keeps orientation flags'),
  O('C12.e-groups-independent-2', 'off_dispatch.cpp', 'harness_groups_independent', defs=['LEN0=2'], replace=BOTH, unwind=8, bound='group 1: two-point path; group 2: triangle', desc='as above'),
  O('C12.e-groups-independent-1', 'off_dispatch.cpp', 'harness_groups_independent', defs=['LEN0=1'], replace=BOTH, unwind=8, tiers='x', bound='group 1: single point; group 2: triangle', desc='as above'),
  O('C12.e-execute-overloads', 'off_dispatch.cpp', 'harness_execute_overloads', replace=BOTH, unwind=8, bound='one triangle group; Execute(tree), Execute(paths), Execute(other tree) on one ClipperOffset; all deltas and join types', desc='each Execute overload delivers the clean-up union into the container of that call (paths after tree, tree after paths)'),
  O('C12.d-paths-independent-2-3', 'off_dispatch.cpp', 'harness_dispatch_independent', defs=['LEN0=2', 'LEN1=3'], replace=OFFW, unwind=8, bound='group of a 2-point and a 3-point path', desc='per-path dispatch does not depend on earlier paths of the group (shared with C07.a)'),
]
