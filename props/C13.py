# C13 - results independent of representation; set algebra (mechanisms where representation could leak)
META = dict(
  level_text='Bounded model checking of the places where input representation could leak into the result: the three sort comparators are strict weak orders for all values (otherwise sorting is order dependent), the contribution table is symmetric under subject/clip exchange (Intersection, Union, Xor) and under reversal of all paths (Positive<->Negative), and AddPaths_ produces the same vertex ring flags and local minima whichever vertex a closed path starts at. End-to-end equalities over all geometry are not decided.',
  level_note='AddPaths_ rotation: 3 distinct vertices with coordinates up to 2^62 (4 in the thorough tier). Transformation identities (translate/mirror/scale) and Xor/Difference algebra need the whole sweep.',
  functions=['LocMinSorter', 'IntersectListSort', 'HorzSegSorter', 'ClipperBase::IsContributingClosed', 'AddPaths_', 'AddLocMin'],
  assumptions=['3 elements per comparator check', 'closed path of 3 (4) distinct vertices'],
  outside=['all end-to-end equalities and transformation clauses', 'IsValidAelOrder'],
)
LMA = {'std::unique_ptr<Clipper2Lib::LocalMinima, std::default_delete<Clipper2Lib::LocalMinima> >& std::vector<std::unique_ptr<Clipper2Lib::LocalMinima, std::default_delete<Clipper2Lib::LocalMinima> >, std::allocator<std::unique_ptr<Clipper2Lib::LocalMinima, std::default_delete<Clipper2Lib::LocalMinima> > > >::emplace_back<std::unique_ptr<Clipper2Lib::LocalMinima': 'stub_locmin_append'}
OBLIGATIONS = [
  O('C13.b-locmin-sorter', 'eng_units.cpp', 'harness_locmin_sorter', unwind=5, bound='3 local minima, all int64 coordinates', desc='strict weak order; y descending then x ascending'),
  O('C13.b-intersect-sorter', 'eng_units.cpp', 'harness_intersect_sorter', unwind=5, bound='3 nodes, all int64 coordinates', desc='strict weak order'),
  O('C13.b-horzseg-sorter', 'eng_units.cpp', 'harness_horzseg_sorter', unwind=5, bound='3 segments, all x, any right_op null pattern', desc='strict weak order'),
  O('C13.c-contributing-symmetry', 'eng_wind.cpp', 'harness_contrib_symmetry', bound='all clip types, fill rules, winding numbers |w|<=1e6', desc='subject/clip exchange and path reversal symmetries of IsContributingClosed'),
  O('C13.a-addpaths-rotation-3', 'eng_units.cpp', 'harness_addpaths_rotation', defs=['PN=3'], replace=LMA, unwind=8, timeout=300, bound='closed path of 3 distinct vertices, |coord|<=2^62, start vertex 0 vs 1', desc='same flags per vertex and same number of local minima/maxima'),
  O('C13.a-addpaths-rotation-4', 'eng_units.cpp', 'harness_addpaths_rotation', defs=['PN=4'], replace=LMA, unwind=9, tiers='t', timeout=1800, bound='closed path of 4 distinct vertices', desc='as above'),
]
