# C14 - independent objects can be used from different threads (no shared mutable state)
META = dict(
  level_text='Non-interference instead of schedule exploration: if no operation reads or writes writable memory other than what is reachable from its own arguments, every interleaving of operations on disjoint objects equals a sequential run. Decided in two parts. (1) A scan, regenerated every run from the LLVM IR of all library code (three .cpp files plus every header-only entry point instantiated), lists every writable global / function-local static and every function that stores to it or lets its address escape; any such function other than a static initialiser is reported. (2) A solver-checked whole-pipeline run: with the contents of every writable library global made symbolic before the call, Clipper64::Execute on concrete geometry must produce the fresh-process result (USINGZ variant in C15 shares the mechanism).',
  level_note='Part (1) is a syntactic IR scan, not a solver query (CBMC does not model C++ threads for this code and exploring schedules of two sweeps is out of reach); it is exhaustive over the code compiled. The exported SetZCallback64/D globals are the documented process-wide setters of the C API and are allowed. Part (2) quantifies over global contents only; geometry is concrete.',
  technique='LLVM-IR global-state scan (regenerated each run) + bounded symbolic execution (CBMC) of Execute with all writable globals havocked',
  functions=['all functions of clipper.engine.cpp, clipper.offset.cpp, clipper.rectclip.cpp and the instantiated header-only API (scan)', 'Clipper64::Execute (havoc run)'],
  assumptions=['single concrete geometry for the havoc run'],
  outside=['data races inside one object used from two threads (not promised by the library)', 'instructions not executed by the havoc run are covered by the scan only'],
)
OBLIGATIONS = [
  O('C14.a-global-havoc-execute', 'eng_whole.cpp', 'harness_history_vs_fresh', unwind=14, timeout=1800, object_bits=16, tiers='t', bound='all contents of InvalidPoint64/InvalidPointD/InvalidRect64/InvalidRectD (the writable library globals) symbolic before Execute; two crossing triangles', desc='Execute does not depend on (nor, by the scan, write) any writable global'),
  O('C14.a-global-scan', 'lib_all.cpp', 'instantiate_all', kind='irscan', bound='all library code compiled into one module', desc='no writable global or function-local static is written (or has its address taken) outside static initialisation',
    allow_globals=('Clipper2Lib::dllCallback64', 'Clipper2Lib::dllCallbackD')),
  O('C14.a-global-scan-usingz', 'lib_all.cpp', 'instantiate_all', kind='irscan', usingz=True, bound='all library code, USINGZ configuration', desc='as above',
    allow_globals=('Clipper2Lib::dllCallback64', 'Clipper2Lib::dllCallbackD')),
]
