# C15 - USINGZ builds compute the same geometry and account for every Z
META = dict(
  level_text='Whole-pipeline model checking of Clipper64::Execute in the USINGZ configuration on concrete geometries with EVERY Z quantity symbolic (the z of each input vertex, DefaultZ, whether a callback is installed and every value it assigns): for all of them the x,y solution equals the one the plain build produces (obtained natively at check time), and every solution vertex either coincides with an input vertex and carries a z given at that location, or carries what the callback assigned for exactly that point, or DefaultZ when no callback is installed.',
  level_note='Geometry is a small concrete corpus (listed); the quantifier covers all Z labelings/callback behaviours, not all geometry: Z never steers the sweep, which is what makes the whole Execute symbolically executable here. ClipperD::ZCB, ClipperOffset::ZCB and RectClip are not covered.',
  functions=['ClipperBase::DoSplitOp (USINGZ)', 'ClipperBase::Split', 'ClipperBase::CheckJoinLeft/Right (via Execute)', 'Clipper64::Execute (USINGZ)', 'ClipperBase::SetZ', 'ClipperBase::IntersectEdges', 'ClipperBase::AddPaths', 'Clipper64::BuildPaths64', 'Point<long> (z member, equality ignores z)'],
  assumptions=['geometries: two crossing triangles subject/clip (Intersection); triangle inside a square (no crossings); two overlapping subjects with a distant clip (Difference)'],
  outside=['all other geometry', 'offsetting / rect clipping / ClipperD Z handling'],
)
SPLIT = {'bool Clipper2Lib::GetSegmentIntersectPt<long>(': 'stub_gsip', 'Clipper2Lib::Area(Clipper2Lib::OutPt': 'stub_area_op', 'Clipper2Lib::AreaTriangle(': 'stub_area_tri',
         'Clipper2Lib::Path1InsidePath2(Clipper2Lib::OutPt': 'stub_p1inp2', 'Clipper2Lib::ClipperBase::NewOutRec(': 'stub_newoutrec'}
OBLIGATIONS = [
  O('C15.b-dosplitop-z', 'eng_units.cpp', 'harness_dosplitop', defs=['SN=5', 'G=4611686018427387904LL'], usingz=True, replace=SPLIT, unwind=8, timeout=600, bound='ring of 5 output points with coordinates in [0,2^62] with arbitrary z, any intersection point, any area verdicts, with and without callback', desc='self-intersection repair: the callback is called once with the two crossing segments and the new point; every vertex created (in the repaired ring and in the split-off triangle) carries the z the callback assigned (0 without callback); input vertices keep their z'),
  O('C15.ab-z-accounting-same-type', 'eng_z.cpp', 'harness_z_accounting', defs=['GEOM=2'], usingz=True, unwind=18, timeout=900, expect_from=('eng_plain.cpp', [], 'expect_geom2'),
    bound='two overlapping subject triangles and a distant clip, Difference; all z labels, DefaultZ, callback values', desc='same-type crossings (local minima / maxima created at crossings): same x,y as the plain build and every z accounted for'),
  O('C15.ab-z-accounting-split-join', 'eng_z.cpp', 'harness_z_accounting', defs=['GEOM=3'], usingz=True, unwind=18, timeout=900, expect_from=('eng_plain.cpp', [], 'expect_geom3'),
    bound='needle triangles (26,3)(1,16)(29,4) - (16,9)(20,21)(14,1) on a 30-grid, Difference; all z labels, DefaultZ, callback values', desc='a joined edge pair is split at a crossing (ClipperBase::Split): the vertex created there is accounted for'),
  O('C15.ab-z-accounting-join-at-crossing', 'eng_z.cpp', 'harness_z_accounting', defs=['GEOM=4'], usingz=True, unwind=18, timeout=1200, expect_from=('eng_plain.cpp', [], 'expect_geom4'),
    bound='two 5-gons on a 50-grid (listed in eng_z.cpp), Intersection; all z labels, DefaultZ, callback values', desc='edges joined at a rounded crossing (CheckJoinLeft/Right): the vertex created there is accounted for'),
  O('C15.ab-z-accounting-crossing', 'eng_z.cpp', 'harness_z_accounting', defs=['GEOM=0'], usingz=True, unwind=14, timeout=600, expect_from=('eng_plain.cpp', [], 'expect_geom0'),
    bound='two crossing triangles; all z labels, DefaultZ, callback values', desc='same x,y as the plain build; every solution z is an input z at that point, a callback value for that point, or DefaultZ'),
  O('C15.ab-z-accounting-nested', 'eng_z.cpp', 'harness_z_accounting', defs=['GEOM=1'], usingz=True, unwind=14, timeout=600, expect_from=('eng_plain.cpp', [], 'expect_geom1'),
    bound='triangle inside a square; all z labels', desc='no crossing: no callback call; input z values carried through'),
]
