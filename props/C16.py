# C16 - the floating-point API is the integer API on scaled coordinates
MATH = {'pow': 'stub_pow', 'ilogb': 'stub_ilogb'}
ENG = dict(MATH, **{'Clipper2Lib::ClipperBase::AddPaths(': 'stub_addpaths', 'Clipper2Lib::ClipperBase::ExecuteInternal(': 'stub_execint',
       'Clipper2Lib::ClipperD::BuildPathsD(': 'stub_buildpathsD', 'Clipper2Lib::ClipperBase::CleanUp(': 'stub_cleanup'})
OFF = dict(MATH, **{'Clipper2Lib::ClipperOffset::AddPaths(': 'stub_off_addpaths',
       'Clipper2Lib::ClipperOffset::Execute(double, std::vector<std::vector<Clipper2Lib::Point<long>': 'stub_off_execute'})
META = dict(
  level_text='Stub-and-observe model checking of the PathsD wrappers: the integer engine is replaced at IR level by recorders and the solver shows, for all finite input doubles within the stated magnitudes, bit-precisely (IEEE-754 multiplications and std::round), that the engine receives round-to-nearest of x*scale with the documented scale, the unchanged enums, delta*scale and arc_tolerance*scale, and that the value returned is the engine output times 1/scale.',
  level_note='Per obligation the precision is a concrete value (listed); std::pow/std::ilogb are table contracts validated natively every run; what the integer engine does with its inputs is the subject of the other properties. BuildPathsD/BuildTreeD node-for-node shape and MinkowskiSum/Diff, RectClip, TrimCollinear PathsD overloads are not covered yet.',
  functions=['BooleanOp(PathsD)', 'ClipperD::ClipperD', 'ClipperD::AddSubject/AddClip', 'ClipperD::Execute', 'ScalePaths<long,double>', 'ScalePath<long,double>', 'Point<long>::Init<double> (std::round)', 'InflatePaths(PathsD)', 'ScalePaths<double,long>'],
  assumptions=['finite doubles, |coordinate| < 1e9 (BooleanOp) / 1e6 (InflatePaths)', 'precisions checked: see obligations'],
  outside=['PolyTreeD shape beyond the one concrete geometry of C16.c', 'Minkowski / RectClip / RectClipLines / TrimCollinear PathsD overloads', 'precisions other than those listed'],
)
OBLIGATIONS = []
for p in (2, 0, -2, 8):
    OBLIGATIONS.append(O('C16.b-booleanop-d-p%d' % p, 'c11_args.cpp', 'harness_booleanop_d', defs=['PREC=%d' % p], replace=ENG, unwind=19, backend=['cadical', 'kissat'],
                         tiers='qt' if p in (2, 0) else 't', timeout=None, bound='precision %d, finite |coord|<1e9, all clip types / fill rules' % p,
                         desc='BooleanOp(PathsD): engine gets round(x*scale), scale = smallest power of two above 10^p; result = engine output * 1/scale'))
for p in (2, 0, -3):
    for part, what in ((1, 'coordinates'), (2, 'delta'), (8, 'arc tolerance'), (4, 'result descaling')):
        if p == 0 and part != 1: continue
        OBLIGATIONS.append(O('C16.b-inflate-d-p%d%s' % (p, '' if p == 0 else '-part%d' % part), 'c11_args.cpp', 'harness_inflate_d', defs=['PREC=%d' % p, 'IPART=%d' % (15 if p == 0 else part)], replace=OFF, unwind=5,
                             backend=['cadical', 'kissat', 'sat'], flags=['--slice-formula'], tiers='x' if (p == -3 and part in (2, 8)) else 't', timeout=2400 if part == 4 else 900, bound='precision %d, finite |values|<1e6, delta != 0' % p,
                             desc='InflatePaths(PathsD): coordinates, delta and arc tolerance scaled by 10^p; miter limit unscaled; result descaled' + ('' if p == 0 else ' (this obligation: %s)' % what)))
OBLIGATIONS.append(O('C16.a-scalepaths-round', 'c11_args.cpp', 'harness_scalepaths_range', unwind=4, backend=['cadical', 'kissat'], tiers='t', timeout=900,
                     bound='1 path x 2 points, all finite doubles, scale 100', desc='ScalePaths<int64,double> == round-to-nearest(x*scale) elementwise, or range error'))
OBLIGATIONS.append(O('C16.c-treed-shape', 'c11_args.cpp', 'harness_treed_shape', replace=MATH, unwind=19, timeout=1800, object_bits=16, tiers='t',
                     bound='self-intersecting pentagon (4,1 3,0 8,8 11,4 0,8)/2, Union EvenOdd, precision 0', desc='PolyTreeD of the input == PolyTree64 of the scaled input, node for node (same counts, same polygons descaled)'))
