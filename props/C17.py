# C17 - the C export layer marshals faithfully and forwards every parameter
ENG = {'Clipper2Lib::ClipperBase::AddPaths(': 'stub_addpaths', 'Clipper2Lib::ClipperBase::ExecuteInternal(': 'stub_execint',
       'Clipper2Lib::Clipper64::BuildPaths64(': 'stub_buildpaths64', 'Clipper2Lib::ClipperBase::CleanUp(': 'stub_cleanup'}
OFF = {'Clipper2Lib::ClipperOffset::AddPaths(': 'stub_off_addpaths', 'Clipper2Lib::ClipperOffset::AddPath(': 'stub_off_addpath',
       'Clipper2Lib::ClipperOffset::Execute(double, std::vector<std::vector<Clipper2Lib::Point<long>': 'stub_off_execute'}
META = dict(
  level_text='Bounded model checking of the real marshalling functions (round trip, header fields, every access inside the allocation by CBMC bounds checks) for all coordinate values on a family of path-set shapes, and stub-and-observe checks of the exported functions: the engine entry points are replaced at IR level by recorders and the solver shows, for all argument values, that each recorder saw exactly the corresponding argument and that the returned array is the marshalled recorder output.',
  level_note='Shapes (path counts and lengths) are concrete per obligation and listed in the evidence; coordinates, z values and all scalar arguments are symbolic. Recorders replace ClipperBase::AddPaths/ExecuteInternal/CleanUp, Clipper64::BuildPaths64, ClipperOffset::AddPath(s)/Execute: what those do with the arguments is the subject of other properties.',
  functions=['BooleanOp_PolyTree64', 'BooleanOpD', 'BooleanOp_PolyTreeD', 'CreateCPathsFromPathsT<long>', 'ConvertCPathsToPathsT<long>', 'ConvertCPathToPathT<long>', 'GetPathCountAndCPathsArrayLen<long>', 'BooleanOp64', 'InflatePaths64', 'InflatePath64', 'Clipper64::Execute (inline wrappers)', 'ClipperOffset::ClipperOffset', 'CreateCPolyTree64', 'CreateCPolyPath64', 'GetPolyPathArrayLen64', 'RectClip64 (export)', 'RectClipLines64 (export)', 'CRectToRect', 'CRectIsEmpty'],
  assumptions=['path-set shapes: 3 paths with lengths from {0,1,2} (all-empty, leading/trailing/middle empty); single 3-point paths for the forwarding harnesses'],
  outside=['polytree layouts with more than the listed shapes', 'paths longer than 3 points'],
)
OBLIGATIONS = []
for (l0, l1, l2) in [(2, 0, 1), (0, 0, 0), (0, 2, 0), (1, 1, 2)]:
    for z in (False, True):
        OBLIGATIONS.append(O('C17.a-roundtrip64-%d%d%d%s' % (l0, l1, l2, '-z' if z else ''), 'c17_export.cpp', 'harness_roundtrip64', defs=['L0=%d' % l0, 'L1=%d' % l1, 'L2=%d' % l2], usingz=z, unwind=5,
                             tiers='qt' if (l0, l1, l2) in [(2, 0, 1), (0, 0, 0)] else 't',
                             bound='3 paths of lengths (%d,%d,%d), all int64 coordinates%s' % (l0, l1, l2, ' and z' if z else ''), desc='Convert(Create(p)) == p minus empty paths; array[0] == elements written; array[1] == non-empty count; all accesses in bounds'))
RCX = {'Clipper2Lib::RectClip64::Execute(': 'stub_rc_execute', 'Clipper2Lib::RectClipLines64::Execute(': 'stub_rcl_execute'}
OBLIGATIONS += [
  O('C17.c-rectclipd-export-two-calls', 'c17_export.cpp', 'harness_rectclipd_export', replace=dict(RCX, pow='stub_pow'), unwind=10, timeout=300, backend=['sat', 'cadical'], bound='two consecutive calls with arbitrary precisions 0..4 (RectClipD and RectClipLinesD), concrete coordinates', desc='each call scales rectangle and paths by 10^its own precision and descales the result; out-of-range precision rejected'),
  O('C17.b-polytree-layout', 'c17_export.cpp', 'harness_polytree_layout', unwind=6, bound='tree { a(3 pts) { b(3 pts) }, c(4 pts) }, all coordinates; empty tree', desc='CreateCPolyTree64 writes exactly array_len elements in the documented nested layout'),
  O('C17.b-polytree-layout-z', 'c17_export.cpp', 'harness_polytree_layout', usingz=True, unwind=6, tiers='t', bound='as above, USINGZ', desc='as above with z'),
  O('C17.c-rectclip64-export', 'c17_export.cpp', 'harness_rectclip64_export', replace=RCX, unwind=10, bound='all rectangles (incl. empty), RectClip64 and RectClipLines64', desc='rectangle and paths forwarded unchanged; empty rectangle and null paths rejected; result marshalled'),
  O('C17.a-roundtrip-path64', 'c17_export.cpp', 'harness_roundtrip_path64', unwind=5, bound='one 2-point path', desc='ConvertCPathToPathT reads back a path record'),
  O('C17.c-booleanop64', 'c17_export.cpp', 'harness_booleanop64', replace=ENG, unwind=5, bound='all cliptype/fillrule bytes, flags; 3-point subject/open/clip', desc='BooleanOp64 forwards clip type, fill rule, both flags and the three path sets to the engine; rejects bad bytes before touching it; returns the marshalled result'),
  O('C17.c-booleanop64-z', 'c17_export.cpp', 'harness_booleanop64', replace=ENG, usingz=True, unwind=5, bound='as above, USINGZ', desc='same with USINGZ', tiers='t'),
  O('C17.c-inflatepaths64', 'c17_export.cpp', 'harness_inflatepaths64', replace=OFF, unwind=5, bound='all delta/miter/arc doubles, join/end bytes, reverse flag', desc='InflatePaths64 forwards every argument to ClipperOffset'),
  O('C17.c-inflatepath64', 'c17_export.cpp', 'harness_inflatepaths64', defs=['SINGLE_PATH'], replace=OFF, unwind=5, bound='as above', desc='InflatePath64 forwards every argument to ClipperOffset'),
]
ARGS = dict(ENG, **{'Clipper2Lib::Clipper64::BuildTree64(': 'stub_buildtree64', 'Clipper2Lib::ClipperD::BuildTreeD(': 'stub_buildtreeD', 'Clipper2Lib::ClipperD::BuildPathsD(': 'stub_buildpathsD', 'pow': 'stub_pow_w', 'ilogb': 'stub_ilogb_w'})
OBLIGATIONS += [O('C17.c-boolean-args-%s' % nm, 'c17_export.cpp', 'harness_booleanop_args', defs=['BFN=%d' % k], replace=ARGS, unwind=19, timeout=600, bound='all cliptype/fillrule bytes, precisions -12..12, both flags; 3-point subject/open/clip', desc='%s: out-of-range precision -> -5, clip type -> -4, fill rule -> -3 before the engine is touched; every valid combination returns 0 after one Execute with that clip type / fill rule%s (also C11: error reporting at the C boundary)' % (nm, ' in tree mode' if k != 2 else '')) for k, nm in ((1, 'BooleanOp_PolyTree64'), (2, 'BooleanOpD'), (3, 'BooleanOp_PolyTreeD'))]

