# C18 - geometric predicates exact, measurements accurate
META = dict(
  level_text='Bounded model checking of the real predicate functions against exact 128-bit integer references, for all inputs in the stated ranges; each obligation is a solver verdict over the whole input space of the harness, not a sample.',
  level_note='Trusted: clang-14/opt-14, the ir2c translator (self-tested every run against the clang-compiled IR), CBMC and the SMT/SAT back ends. Bounds per obligation are in the evidence file.',
  functions=['PointInPolygon<long> (grids)', 'Area<long> / IsPositive (overflow freedom)', 'Clipper2Lib::Multiply', 'Clipper2Lib::ProductsAreEqual', 'Clipper2Lib::CrossProductSign<long> (128-bit and portable branches)', 'Clipper2Lib::IsCollinear<long>', 'Clipper2Lib::CrossProduct<long> (double)', 'Clipper2Lib::GetSegmentIntersectPt<long> (parallelism)'],
  assumptions=['coordinate differences fit int64 (as the property states); INT64_MIN differences excluded on the portable branch (std::abs is undefined there)', 'trusted identity for the portable-branch obligation: a*b == sgn(a)sgn(b)*(|a|*|b|)'],
  outside=[],
)
CP3 = 'double Clipper2Lib::CrossProduct<long>(Clipper2Lib::Point<long> const&, Clipper2Lib::Point<long> const&, Clipper2Lib::Point<long> const&)'
OBLIGATIONS = [
  O('C18.a-multiply-exact', 'c18_core.cpp', 'harness_multiply', backend='cvc5int', olevel='O1', bound='all 2^128 (a,b)', desc='Multiply == exact 128-bit product', timeout=300),
  O('C18.b-cps128', 'c18_core.cpp', 'harness_cps128', backend=['cvc5int', 'z3', 'kissat', 'cadical'], timeout=600, bound='all int64 points whose differences fit int64', desc='CrossProductSign == sign of exact 128-bit cross product'),
  O('C18.b-pae128', 'c18_core.cpp', 'harness_pae128', backend=['cvc5int', 'z3', 'kissat', 'cadical'], timeout=600, bound='all int64', desc='ProductsAreEqual exact'),
  O('C18.b-iscollinear128', 'c18_core.cpp', 'harness_iscollinear128', backend=['cvc5int', 'z3', 'kissat', 'cadical'], timeout=600, bound='all int64 points whose differences fit int64', desc='IsCollinear exact and consistent with CrossProductSign'),
  O('C18.c-crossproduct-exact', 'c18_pip.cpp', 'harness_crossproduct_exact', lift=[CP3, 'harness_crossproduct_exact'], backend=['z3', 'cvc5int', 'cadical'],
    bound='|coord|<=2^25', desc='double CrossProduct(p1,p2,p3) == exact integer cross product (exact-double lifting; side conditions |v|<=2^53 asserted)'),
  O('C18.c-pip-3', 'c18_pip.cpp', 'harness_pip', defs=['NV=3'], unwind=8, olevel='INL', replace={CP3: 'stub_cp'},
    tiers='x', timeout=3000, bound='triangles, |coord|<=2^25, all query points', desc='PointInPolygon == exact even-odd/on-boundary classification (orientation kernel memoised per edge)'),
  O('C18.c-pip-3-grid3', 'c18_pip.cpp', 'harness_pip', defs=['NV=3', 'LIM=2'], unwind=8, olevel='INL', replace={CP3: 'stub_cp'}, backend=['kissat', 'cadical', 'sat'],
    tiers='q', timeout=600, bound='triangles and query points on the grid [-1,1]^2 (all 9^4 placements)', desc='as C18.c-pip-3-grid on the 3x3 grid'),
  O('C18.c-pip-3-grid', 'c18_pip.cpp', 'harness_pip', defs=['NV=3', 'LIM=3'], unwind=8, olevel='INL', replace={CP3: 'stub_cp'}, backend=['kissat', 'cadical', 'sat'],
    tiers='t', timeout=1800, bound='triangles and query points on the grid [-2,2]^2 (all 25^4 placements, degenerate ones included except all-on-one-horizontal)', desc='PointInPolygon == exact even-odd/on-boundary classification; no out-of-bounds vertex access'),
  O('C18.c-pip-4-grid3', 'c18_pip.cpp', 'harness_pip', defs=['NV=4', 'LIM=2'], unwind=10, olevel='INL', replace={CP3: 'stub_cp'}, backend=['kissat', 'cadical', 'sat'],
    tiers='t', timeout=2400, bound='quadrilaterals (any, incl. self-intersecting and degenerate) and query points on the grid [-1,1]^2 (all 9^5 placements)', desc='PointInPolygon == exact even-odd/on-boundary classification'),
  O('C18.c-pip-4', 'c18_pip.cpp', 'harness_pip', defs=['NV=4'], unwind=10, olevel='INL', replace={CP3: 'stub_cp'},
    bound='quadrilaterals (any, incl. self-intersecting), |coord|<=2^25', desc='PointInPolygon exact', tiers='x', timeout=1800),
]
OBLIGATIONS += [
  O('C18.d-parallel-known', 'c18_segpt.cpp', 'harness_segpt_parallel', backend=['kissat', 'cadical', 'z3'], timeout=600, tiers='qt',
    bound='|coord|<=2^40, direction components not all below 2^26', desc='search for "GetSegmentIntersectPt reports parallel although the exact determinant is non-zero" (recorded known finding: products above 2^53 round to the same double)'),
  O('C18.d-parallel-known-hiprec', 'c18_segpt.cpp', 'harness_segpt_parallel', defs=['CLIPPER2_HI_PRECISION=1'], backend=['kissat', 'cadical', 'z3'], timeout=600, tiers='t',
    bound='as above, CLIPPER2_HI_PRECISION variant', desc='same for the high-precision variant'),
]
MUL = {'Clipper2Lib::Multiply(unsigned long, unsigned long)$': 'stub_multiply'}
OBLIGATIONS += [
  O('C18.b-signed-product-lemma', 'c18_portable.cpp', 'harness_signed_prod_lemma', replace=MUL, backend=['cvc5int', 'z3'], timeout=600, tiers='x',
    bound='all int64 except INT64_MIN', desc='a*b == sgn(a)sgn(b)*(|a|*|b|) in 128 bits (the shape in which the portable branch and its reference compute products)'),
  O('C18.b-cps-portable', 'c18_portable.cpp', 'harness_cps_portable', replace=MUL, backend=['cvc5int', 'z3', 'kissat', 'cadical'], timeout=600, tiers='qt',
    bound='all int64 points whose differences fit int64 (INT64_MIN excluded: std::abs is undefined there)', desc='portable (64x64 Multiply) branch of CrossProductSign == sign of the exact cross product, with Multiply replaced by its C18.a contract and products written as sgn(a)sgn(b)*(|a|*|b|) (that identity is elementary arithmetic; no back end proves it in 600 s, so it is a stated trusted fact)'),
  O('C18.b-pae-portable', 'c18_portable.cpp', 'harness_pae_portable', replace=MUL, backend=['cvc5int', 'z3'], timeout=600, tiers='x',
    bound='all int64 except INT64_MIN', desc='portable branch of ProductsAreEqual exact'),
]
OBLIGATIONS.append(O('C18.e-area-no-overflow', 'c18_segpt.cpp', 'harness_area_no_overflow_40', nsw=True, unwind=6, timeout=300, bound='4 vertices with |coordinates| <= 2^40', desc='Area / IsPositive do no signed 64-bit arithmetic that can overflow (every nsw instruction of the real code asserted); the value itself is covered only by the parked shoelace obligation'))
