# C19 - Minkowski sum and difference are the swept pattern
ISPOS = {'bool Clipper2Lib::IsPositive<long>(': 'stub_ispositive'}
ENG = dict(ISPOS, **{'Clipper2Lib::ClipperBase::AddPaths(': 'stub_addpaths', 'Clipper2Lib::ClipperBase::ExecuteInternal(': 'stub_execint',
       'Clipper2Lib::Clipper64::BuildPaths64(': 'stub_buildpaths64', 'Clipper2Lib::ClipperBase::CleanUp(': 'stub_cleanup'})
META = dict(
  level_text='Bounded model checking of the real detail::Minkowski for all coordinates up to 2^40 on small pattern/path sizes: the result is exactly the set of parallelograms (pattern edge x path edge, closing edge iff closed, sum or difference), each oriented non-negatively, with every integer operation asserted free of signed overflow; and MinkowskiSum/Diff pass exactly those quads to a NonZero union (stub-and-observe).',
  level_note='IsPositive(quad) is replaced by a recorder returning an arbitrary verdict (the obligation is: the forward quad is handed to it, and the quad is reversed exactly when the verdict is negative); that IsPositive itself has the sign of the exact area is trusted up to double rounding (Area exactness could not be decided, see C18). If the orientation test is not routed through IsPositive the harness falls back to asserting exact non-negative area of every returned quad. That the union equals the swept region is C01\'s subject.',
  functions=['detail::Union (second call)', 'detail::Minkowski', 'MinkowskiSum(Path64)', 'MinkowskiDiff(Path64)', 'detail::Union'],
  assumptions=['pattern and path of 2-3 points', '|coordinates| <= 2^40'],
  outside=['the union itself (C01)', 'PathD overloads (scaling: C16)', 'longer patterns/paths'],
)
OBLIGATIONS = []
for (pl, tl, cl, tier) in [(2, 2, 1, 'qt'), (3, 2, 0, 'qt'), (2, 3, 1, 't'), (3, 3, 1, 't'), (3, 3, 0, 't')]:
    OBLIGATIONS.append(O('C19.a-quads-p%d-t%d-%s' % (pl, tl, 'closed' if cl else 'open'), 'c19_mink.cpp', 'harness_minkowski', defs=['PL=%d' % pl, 'TL=%d' % tl, 'CLOSED=%d' % cl],
                         replace=ISPOS, nsw=True, unwind=max(6, pl * tl + 2), backend=['sat', 'cadical'], tiers=tier, timeout=None if tier == 'qt' else 1800,
                         bound='pattern %d pts, path %d pts, %s, sum and difference, |coord|<=2^40' % (pl, tl, 'closed' if cl else 'open'),
                         desc='result == parallelograms in construction order, reversed iff negatively oriented; no signed overflow'))
OBLIGATIONS += [
  O('C19.a-empty', 'c19_mink.cpp', 'harness_minkowski_empty', replace=ISPOS, unwind=6, bound='empty pattern / empty path', desc='empty input gives empty result'),
  O('C19.b-union-nonzero', 'c19_mink.cpp', 'harness_minkowski_union', replace=ENG, nsw=True, unwind=6, bound='2x2, closed', desc='MinkowskiSum/Diff hand the 4 quads as subjects to Execute(Union, NonZero) and return its result; a second call uses a clipper holding nothing from the first'),
]
