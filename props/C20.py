# C20 - path utilities keep their contracts
RDPFN = '_ZN11Clipper2Lib3RDPIlEEvSt6vectorINS_5PointIT_EESaIS4_EEmmdRS1_IbSaIbEE'
PERP = {'double Clipper2Lib::PerpendicDistFromLineSqrd<long>(': 'stub_perp',
        'Clipper2Lib::Point<long>& std::vector<Clipper2Lib::Point<long>, std::allocator<Clipper2Lib::Point<long> > >::emplace_back<Clipper2Lib::Point<long> const&>(': 'stub_path_append_c'}
META = dict(
  level_text='Bounded model checking of the real utility functions. SimplifyPath and RamerDouglasPeucker are checked for ALL possible distance values: the perpendicular-distance kernel is replaced (IR-level substitution) by a symbolic table d(i;a,b) shared with the oracle, so the verdict covers every geometry of the stated size at once; TrimCollinear, StripDuplicates, GetBounds, TranslatePath are checked concretely on symbolic coordinates.',
  level_note='Bounds: SimplifyPath on 4 vertices (quick) and 5 (thorough), RamerDouglasPeucker on 5 and 6 (thorough only: 12-50 min), TrimCollinear on 4 vertices of a 4x4 grid (thorough only; IsCollinear replaced by its exact 32-bit meaning). The distance table is arbitrary non-negative and symmetric in the line end points; vector appends go through a no-reallocation contract (capacity asserted). Length, Ellipse, StripNearEqual (sqrt/sin/cos or inexact doubles) are outside the claim.',
  functions=['SimplifyPath<long>', 'GetNext', 'GetPrior', 'RamerDouglasPeucker<long>', 'RDP<long>', 'TrimCollinear(Path64)', 'StripDuplicates<long>', 'GetBounds<long>(Path)', 'TranslatePath<long>'],
  assumptions=['SimplifyPath/RDP: path of N distinct concrete points, all epsilon in [0,1e10], all non-negative distance tables', 'TrimCollinear: 4 vertices on the grid [0,3]^2'],
  outside=['Length, Ellipse, StripNearEqual', 'open-path TrimCollinear', 'paths longer than the bounds'],
)
APPC = {'bool Clipper2Lib::IsCollinear<long>(': 'stub_iscol_small', 'Clipper2Lib::Point<long>& std::vector<Clipper2Lib::Point<long>, std::allocator<Clipper2Lib::Point<long> > >::emplace_back<Clipper2Lib::Point<long> const&>(': 'stub_path_append_c'}
OBLIGATIONS = [
  O('C20.c-simplifypath-4', 'c20_utils.cpp', 'harness_simplify', defs=['NPTS=4'], replace=PERP, olevel='INL', unwind=6, tiers='q', timeout=900, bound='4 vertices, open and closed, all eps, all distance tables', desc='subsequence in order; open end points kept; no remaining interior vertex within eps of the line through its remaining neighbours'),
  O('C20.b-rdp-5', 'c20_utils.cpp', 'harness_rdp', defs=['NPTS=5'], replace=PERP, olevel='INL', unwind=6, unwindset=[RDPFN + ':4'], tiers='t', timeout=1800, bound='5 vertices, all eps, all distance tables', desc='subsequence; end points kept; every removed vertex within eps of the line through its surviving neighbours'),
  O('C20.c-simplifypath-5', 'c20_utils.cpp', 'harness_simplify', defs=['NPTS=5'], replace=PERP, olevel='INL', unwind=7, tiers='t', timeout=3000, bound='5 vertices', desc='as above'),
  O('C20.b-rdp-6', 'c20_utils.cpp', 'harness_rdp', defs=['NPTS=6'], replace=PERP, olevel='INL', unwind=7, unwindset=[RDPFN + ':5'], tiers='x', timeout=3000, bound='6 vertices', desc='as above'),
  O('C20.a-trimcollinear-4', 'c20_utils.cpp', 'harness_trimcollinear_closed', defs=['TN=4', 'TLIM=3'], olevel='INL', unwind=7, replace=APPC, backend=['kissat', 'cadical'], tiers='t', timeout=3000, bound='closed, 4 vertices on [0,3]^2', desc='signed area preserved; corners only and idempotent when the input has no repeats/reversals'),
  O('C20.a-trimcollinear-4-unit', 'c20_utils.cpp', 'harness_trimcollinear_closed', defs=['TN=4', 'TLIM=1'], olevel='INL', unwind=7, replace=APPC, backend=['kissat', 'cadical'], tiers='q', timeout=900, bound='closed, 4 vertices on [0,1]^2 (repeats and reversals included)', desc='as above, all 256 vertex placements on the unit grid'),
  O('C20.a-trimcollinear-5-unit', 'c20_utils.cpp', 'harness_trimcollinear_closed', defs=['TN=5', 'TLIM=1'], olevel='INL', unwind=8, replace=APPC, backend=['kissat', 'cadical'], tiers='t', timeout=3000, bound='closed, 5 vertices on [0,1]^2', desc='as above'),
  O('C20.d-stripduplicates', 'c20_utils.cpp', 'harness_stripdup', unwind=7, bound='4 vertices on [0,1]^2, open/closed', desc='no equal neighbours (cyclically if closed), first point kept'),
  O('C20.d-getbounds', 'c20_utils.cpp', 'harness_getbounds64', unwind=5, bound='3 vertices, all int64; empty path', desc='bounds are attained min/max; empty path gives the inverted rectangle'),
  O('C20.d-translate', 'c20_utils.cpp', 'harness_translate', unwind=5, bound='2 vertices, |values|<=2^61', desc='elementwise +dx,+dy'),
]
