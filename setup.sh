#!/bin/sh
# Offline setup: nothing to fetch or build; verify the tools the checks need are present.
set -e
for t in cbmc clang++-14 opt-14 llvm-cxxfilt-14 gcc cvc5 z3 kissat python3; do command -v $t >/dev/null || { echo "missing tool: $t"; exit 1; }; done
mkdir -p /verif/build /verif/replay /verif/evidence
chmod +x /verif/check /verif/vf/shim/cvc5
echo setup ok
