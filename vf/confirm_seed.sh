#!/bin/sh
# usage: confirm_seed.sh <out-dir with patch.diff demo.cpp meta.json> <name>
# Confirms a seeded change in a scratch worktree: compiles, test suite passes, demo FAILs with it and PASSes without.
OUT=$1; NAME=$2
WT=/tmp/confirm-$NAME
rm -rf $WT; git -C /repo worktree prune; git -C /repo worktree add -q --detach $WT HEAD || exit 2
cd $WT
if ! git apply $OUT/patch.diff; then echo "RESULT $NAME: patch does not apply"; git -C /repo worktree remove --force $WT; exit 1; fi
ZFLAG=""; grep -q '"needs_usingz": *true' $OUT/meta.json 2>/dev/null && ZFLAG="-DUSINGZ"
cmake -G Ninja -S CPP -B _b -DCMAKE_BUILD_TYPE=RelWithDebInfo -DUSE_EXTERNAL_GTEST=ON -DCLIPPER2_EXAMPLES=OFF >/dev/null 2>&1 && cmake --build _b -j8 >/dev/null 2>&1
BUILD=$?
TESTS=$(ctest --test-dir _b -j8 2>&1 | grep "tests passed" )
g++ -std=c++17 -O1 -pthread $ZFLAG -I$WT/CPP/Clipper2Lib/include $OUT/demo.cpp $WT/CPP/Clipper2Lib/src/*.cpp -o /tmp/demo-$NAME-mut 2>/dev/null; /tmp/demo-$NAME-mut >/dev/null 2>&1; MUT=$?
g++ -std=c++17 -O1 -pthread $ZFLAG -I/repo/CPP/Clipper2Lib/include $OUT/demo.cpp /repo/CPP/Clipper2Lib/src/*.cpp -o /tmp/demo-$NAME-orig 2>/dev/null; /tmp/demo-$NAME-orig >/dev/null 2>&1; ORIG=$?
echo "RESULT $NAME: build_rc=$BUILD tests='$TESTS' demo_with_change_rc=$MUT demo_without_rc=$ORIG"
rm -f /tmp/demo-$NAME-mut /tmp/demo-$NAME-orig
cd /; git -C /repo worktree remove --force $WT
