// Common declarations for harness translation units (see DESIGN.md §1.2).
#pragma once
#include <cstdint>
extern "C" {
void __CPROVER_assume(bool);
void verif_assert_at(bool ok, int line);   // property assertion
void verif_known_at(bool ok, int line);    // assertion whose failure is a recorded known finding class
void verif_reach(void);                    // vacuity witness point (end of harness)
int64_t nondet_i64(void);
uint64_t nondet_u64(void);
int32_t nondet_i32(void);
uint8_t nondet_u8(void);
bool nondet_bool(void);
double nondet_double(void);
void out_i64(int64_t);                     // selftest output channel
void out_f64(double);
}
#define VA(c) verif_assert_at((c), __LINE__)
#define VKNOWN(c) verif_known_at((c), __LINE__)
#define ASSUME(c) __CPROVER_assume(c)
static inline int64_t nd_range(int64_t lo, int64_t hi) { int64_t v = nondet_i64(); ASSUME(v >= lo && v <= hi); return v; }
static inline int nd_int(int lo, int hi) { int v = nondet_i32(); ASSUME(v >= lo && v <= hi); return v; }
