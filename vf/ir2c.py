#!/usr/bin/env python3
"""ir2c prototype: LLVM-14 textual IR (typed pointers) -> C for CBMC.
usage: ir2c.py in.ll out.c [--check-nsw]
"""
import re, sys

TOK = re.compile(r'''
  \s+ |
  c"(?:[^"\\]|\\.)*" |
  "(?:[^"\\]|\\.)*" |
  [%@]"(?:[^"\\]|\\.)*" |
  [%@][-a-zA-Z$._0-9]+ |
  ![-a-zA-Z$._0-9]* |
  \#\d+ |
  0x[KLMHR]?[0-9A-Fa-f]+ |
  -?\d+\.\d*(?:[eE][+-]?\d+)? |
  -?\d+ |
  [a-zA-Z_][a-zA-Z0-9_.]* |
  \.\.\. |
  [=,()\[\]{}<>*:]
''', re.X)

def tokenize(s):
    out = []
    pos = 0
    while pos < len(s):
        m = TOK.match(s, pos)
        if not m:
            raise SyntaxError("tokenize: %r at %r" % (s[pos:pos+40], s))
        t = m.group(0)
        pos = m.end()
        if t.isspace():
            continue
        out.append(t)
    return out

# ---------------------------------------------------------------- types
class P:
    """token cursor"""
    def __init__(self, toks):
        self.t = toks
        self.i = 0
    def peek(self, k=0):
        return self.t[self.i + k] if self.i + k < len(self.t) else None
    def next(self):
        x = self.t[self.i]
        self.i += 1
        return x
    def accept(self, x):
        if self.peek() == x:
            self.i += 1
            return True
        return False
    def expect(self, x):
        y = self.next()
        if y != x:
            raise SyntaxError("expected %r got %r in %r" % (x, y, ' '.join(self.t)))
    def eof(self):
        return self.i >= len(self.t)

def is_type_start(t):
    if t is None:
        return False
    return (t in ('void', 'double', 'float', 'half', 'label', 'metadata', 'opaque', 'x86_fp80', 'ptr', '[', '{', '<')
            or re.fullmatch(r'i\d+', t) is not None
            or (t[0] == '%' and not False))

def parse_type(p):
    t = p.next()
    if t == 'void': ty = ('void',)
    elif t == 'double': ty = ('double',)
    elif t == 'float': ty = ('float',)
    elif t == 'x86_fp80': ty = ('fp80',)
    elif t == 'label': ty = ('label',)
    elif t == 'metadata': ty = ('metadata',)
    elif t == 'opaque': ty = ('opaque',)
    elif re.fullmatch(r'i\d+', t): ty = ('int', int(t[1:]))
    elif t[0] == '%': ty = ('named', t[1:].strip('"'))
    elif t == '[':
        n = int(p.next()); p.expect('x'); e = parse_type(p); p.expect(']')
        ty = ('array', n, e)
    elif t == '{':
        elems = []
        if not p.accept('}'):
            while True:
                elems.append(parse_type(p))
                if p.accept('}'): break
                p.expect(',')
        ty = ('struct', tuple(elems), False)
    elif t == '<':
        if p.peek() == '{':
            p.next()
            elems = []
            if not p.accept('}'):
                while True:
                    elems.append(parse_type(p))
                    if p.accept('}'): break
                    p.expect(',')
            p.expect('>')
            ty = ('struct', tuple(elems), True)
        else:
            n = int(p.next()); p.expect('x'); e = parse_type(p); p.expect('>')
            ty = ('vector', n, e)
    else:
        raise SyntaxError("type? %r in %r" % (t, ' '.join(p.t)))
    while True:
        if p.accept('*'):
            ty = ('ptr', ty)
        elif p.peek() == '(' :
            # function type
            p.next()
            args = []; va = False
            if not p.accept(')'):
                while True:
                    if p.accept('...'):
                        va = True
                    else:
                        args.append(parse_type(p))
                    if p.accept(')'): break
                    p.expect(',')
            ty = ('func', ty, tuple(args), va)
        else:
            break
    return ty

# ---------------------------------------------------------------- module
class Module:
    def __init__(self):
        self.named = {}     # name -> type or ('opaque',)
        self.globals = {}   # name -> dict
        self.funcs = {}     # name -> Func
        self.decls = {}     # name -> (ret, args, va)
        self.aliases = {}
        self.order = []

class Func:
    pass

PARAM_ATTRS = set('''noundef nonnull readonly readnone writeonly nocapture noalias zeroext signext inreg returned
 nest immarg swiftself swifterror nofree'''.split())
ATTR_CALL = ('align', 'dereferenceable', 'dereferenceable_or_null', 'byval', 'sret', 'inalloca', 'preallocated', 'byref', 'elementtype')

def skip_attrs(p, info=None):
    while True:
        t = p.peek()
        if t in PARAM_ATTRS:
            p.next()
        elif t in ATTR_CALL:
            p.next()
            if p.peek() == '(':
                p.next()
                if t in ('byval', 'sret', 'byref', 'inalloca', 'preallocated', 'elementtype'):
                    ty = parse_type(p)
                    if info is not None: info[t] = ty
                else:
                    p.next()
                p.expect(')')
            else:
                p.next()  # align N
        else:
            return

LINKAGE = set('''private internal available_externally linkonce weak common appending extern_weak linkonce_odr weak_odr external
 dso_local dso_preemptable default hidden protected dllimport dllexport unnamed_addr local_unnamed_addr
 thread_local externally_initialized fastcc ccc coldcc tail musttail notail
 nnan ninf nsz arcp contract afn reassoc fast'''.split())

def join_logical_lines(text):
    """yield logical lines (switch statements span lines)"""
    lines = text.split('\n')
    i = 0
    while i < len(lines):
        ln = lines[i]
        s = ln.strip()
        if re.match(r'^(%\S+ = )?switch ', s) or False:
            while ']' not in ln.split('[', 1)[1] if '[' in ln else True:
                i += 1
                ln += ' ' + lines[i]
                if '[' in ln and ']' in ln.split('[', 1)[1]:
                    break
        yield ln
        i += 1

def strip_comment_meta(s):
    # remove trailing comments (; ...) not inside strings
    out = []
    inq = False
    for k, ch in enumerate(s):
        if ch == '"':
            inq = not inq
        if ch == ';' and not inq:
            break
        out.append(ch)
    return ''.join(out).rstrip()

def parse_module(text):
    m = Module()
    cur = None
    for raw in join_logical_lines(text):
        line = strip_comment_meta(raw)
        if not line.strip():
            # a comment line may carry a block label "; <label>:12:" (old) - ignore
            continue
        s = line.strip()
        if cur is None:
            if s.startswith('source_filename') or s.startswith('target ') or s.startswith('attributes ') or s.startswith('!') or s.startswith('module asm'):
                continue
            if s.startswith('$'):  # comdat
                continue
            mm = re.match(r'^(%"(?:[^"\\]|\\.)*"|%[-a-zA-Z$._0-9]+) = type (.*)$', s)
            if mm:
                nm = mm.group(1)[1:].strip('"')
                p = P(tokenize(mm.group(2)))
                m.named[nm] = parse_type(p)
                continue
            if s.startswith('@'):
                parse_global(m, s)
                continue
            if s.startswith('declare'):
                parse_decl(m, s)
                continue
            if s.startswith('define'):
                cur = parse_define(m, s)
                continue
            raise SyntaxError("toplevel? " + s)
        else:
            if s == '}':
                m.funcs[cur.name] = cur
                m.order.append(cur.name)
                cur = None
                continue
            mm = re.match(r'^([-a-zA-Z$._0-9]+|"(?:[^"\\]|\\.)*"):$', s)
            if mm:
                cur.blocks.append((mm.group(1).strip('"'), []))
                continue
            cur.blocks[-1][1].append(s)
    return m

def parse_global(m, s):
    toks = tokenize(s)
    p = P(toks)
    name = p.next()[1:].strip('"')
    p.expect('=')
    kind = None
    external = False
    while p.peek() in LINKAGE:
        if p.peek() in ('external', 'extern_weak'): external = True
        p.next()
    if p.peek() == 'alias':
        p.next()
        ty = parse_type(p); p.expect(',')
        ty2 = parse_type(p)
        # target may be a constexpr; we only handle direct
        tgt = p.next()
        if tgt in ('bitcast',):
            p.expect('('); parse_type(p); tgt = p.next()
        m.aliases[name] = tgt[1:].strip('"')
        return
    k = p.next()
    assert k in ('global', 'constant'), s
    ty = parse_type(p)
    init = None
    if not external and not p.eof() and p.peek() != ',':
        init = parse_const(p, ty)
    m.globals[name] = dict(name=name, ty=ty, init=init, const=(k == 'constant'), external=external)

def parse_decl(m, s):
    toks = tokenize(s)
    p = P(toks)
    p.expect('declare')
    while p.peek() in LINKAGE or p.peek() in PARAM_ATTRS or p.peek() in ATTR_CALL:
        skip_attrs(p)
        if p.peek() in LINKAGE: p.next()
    ret = parse_type(p)
    name = p.next()[1:].strip('"')
    p.expect('(')
    args = []; va = False
    if not p.accept(')'):
        while True:
            if p.accept('...'): va = True
            else:
                args.append(parse_type(p)); skip_attrs(p)
            if p.accept(')'): break
            p.expect(',')
    m.decls[name] = (ret, tuple(args), va)

def parse_define(m, s):
    toks = tokenize(s)
    p = P(toks)
    p.expect('define')
    while True:
        if p.peek() in LINKAGE: p.next()
        elif p.peek() in PARAM_ATTRS or p.peek() in ATTR_CALL: skip_attrs(p)
        else: break
    ret = parse_type(p)
    f = Func()
    f.name = p.next()[1:].strip('"')
    f.ret = ret
    f.params = []
    f.va = False
    p.expect('(')
    idx = 0
    if not p.accept(')'):
        while True:
            if p.accept('...'):
                f.va = True
            else:
                ty = parse_type(p)
                info = {}
                skip_attrs(p, info)
                if p.peek() and p.peek()[0] == '%':
                    nm = p.next()[1:].strip('"')
                else:
                    nm = str(idx)
                f.params.append((ty, nm, info))
            idx += 1
            if p.accept(')'): break
            p.expect(',')
    f.blocks = [(str(len(f.params)) if all(pp[1].isdigit() for pp in f.params) else 'entry', [])]
    # entry block's implicit label is the next unnamed number
    nums = [int(pp[1]) for pp in f.params if pp[1].isdigit()]
    f.blocks = [(str(len(f.params)), [])]
    return f

# ---------------------------------------------------------------- constants
def hexfloat(tok):
    import struct
    if tok.startswith('0x') and tok[2] not in 'KLMHR':
        return struct.unpack('>d', bytes.fromhex(tok[2:].rjust(16, '0')))[0]
    return float(tok)

def parse_const(p, ty):
    """returns constant AST: ('int',v) ('fp',v) ('null',) ('zero',) ('undef',) ('gref',name) ('struct',[...]) ('array',[...]) ('str',bytes)
       ('cast',op,const,fromty,toty) ('gep',basety,const,[idx consts])"""
    t = p.next()
    if t in ('true', 'false'):
        return ('int', 1 if t == 'true' else 0)
    if t == 'null': return ('null',)
    if t == 'zeroinitializer': return ('zero',)
    if t in ('undef', 'poison'): return ('undef',)
    if t[0] == '@': return ('gref', t[1:].strip('"'))
    if t[0] == '%': return ('local', t[1:].strip('"'))
    if t.startswith('c"'):
        body = t[2:-1]
        bs = bytearray()
        i = 0
        while i < len(body):
            if body[i] == '\\':
                bs.append(int(body[i+1:i+3], 16)); i += 3
            else:
                bs.append(ord(body[i])); i += 1
        return ('str', bytes(bs))
    if t == '{' or (t == '<' and p.peek() == '{'):
        packed = (t == '<')
        if packed: p.next()
        elems = []
        if not p.accept('}'):
            while True:
                ety = parse_type(p)
                elems.append((ety, parse_const(p, ety)))
                if p.accept('}'): break
                p.expect(',')
        if packed: p.expect('>')
        return ('struct', elems)
    if t == '[':
        elems = []
        if not p.accept(']'):
            while True:
                ety = parse_type(p)
                elems.append((ety, parse_const(p, ety)))
                if p.accept(']'): break
                p.expect(',')
        return ('array', elems)
    if t in ('bitcast', 'ptrtoint', 'inttoptr', 'trunc', 'zext', 'sext', 'addrspacecast'):
        p.expect('(')
        fty = parse_type(p)
        c = parse_const(p, fty)
        p.expect('to')
        tty = parse_type(p)
        p.expect(')')
        return ('cast', t, c, fty, tty)
    if t == 'getelementptr':
        p.accept('inbounds')
        p.expect('(')
        bty = parse_type(p); p.expect(',')
        pty = parse_type(p)
        base = parse_const(p, pty)
        idxs = []
        while p.accept(','):
            p.accept('inrange')
            ity = parse_type(p)
            idxs.append((ity, parse_const(p, ity)))
        p.expect(')')
        return ('gep', bty, pty, base, idxs)
    if t in ('add', 'sub', 'mul', 'and', 'or', 'xor', 'shl', 'lshr', 'ashr'):
        while p.peek() in ('nsw', 'nuw', 'exact'): p.next()
        p.expect('(')
        t1 = parse_type(p); a = parse_const(p, t1); p.expect(',')
        t2 = parse_type(p); b = parse_const(p, t2); p.expect(')')
        return ('bin', t, t1, a, b)
    if ty[0] in ('double', 'float'):
        return ('fp', hexfloat(t))
    if re.fullmatch(r'-?\d+', t):
        return ('int', int(t))
    raise SyntaxError("const? %r (%r)" % (t, ' '.join(p.t)))

# ---------------------------------------------------------------- C emission
def san(name):
    return re.sub(r'[^A-Za-z0-9_]', lambda mo: '_%02x' % ord(mo.group(0)), name)

class Emitter:
    def __init__(self, m, opts):
        self.m = m
        self.opts = opts
        self.typedefs = []       # ordered C typedef lines for literal/array/func types
        self.tnames = {}         # type tuple -> C name
        self.out = []
        self.struct_defs = {}    # cname -> (fields)
        self.need_mm = set()
        self.deps = {}

    # ---- types
    def ct(self, ty):
        k = ty[0]
        if k == 'void': return 'void'
        if k == 'int':
            n = ty[1]
            if n == 1: return 'u1'
            for w in (8, 16, 32, 64, 128):
                if n <= w: return 'u%d' % w
            raise NotImplementedError("int width %d" % n)
        if k == 'double': return 'double'
        if k == 'float': return 'float'
        if k == 'ptr':
            e = ty[1]
            if e[0] == 'func':
                return self.fn_typedef(e)
            if e[0] == 'void' or e[0] == 'opaque': return 'u8*'
            return self.ct(e) + '*'
        if k == 'named':
            return 'struct ' + self.sname(ty[1])
        if k in ('array', 'struct'):
            return 'struct ' + self.lit_typedef(ty)
        if k == 'func':
            return self.fn_typedef(ty)  # used only behind ptr
        if k == 'metadata' or k == 'label':
            return 'void'
        raise NotImplementedError("ctype %r" % (ty,))

    def sname(self, nm):
        return 'S_' + san(nm)

    def lit_typedef(self, ty):
        if ty in self.tnames: return self.tnames[ty]
        nm = 'L%d' % len(self.tnames)
        self.tnames[ty] = nm
        if ty[0] == 'array':
            n = ty[1]
            fields = [(self.ct(ty[2]), 'e[%d]' % max(n, 0), ty[2])]
            self.struct_defs[nm] = (fields, False, n == 0)
        else:
            fields = [(self.ct(e), 'f%d' % i, e) for i, e in enumerate(ty[1])]
            self.struct_defs[nm] = (fields, ty[2], False)
        return nm

    def fn_typedef(self, fty):
        key = ('fn',) + fty
        if key in self.tnames: return self.tnames[key]
        nm = 'fn%d' % len(self.tnames)
        self.tnames[key] = nm
        ret = self.ct(fty[1])
        args = ', '.join(self.ct(a) for a in fty[2])
        if fty[3]:
            args = (args + ', ...') if args else ''
        elif not args:
            args = 'void'
        self.typedefs.append('typedef %s (*%s)(%s);' % (ret, nm, args))
        return nm

    def resolve(self, ty):
        while ty[0] == 'named':
            ty = self.m.named[ty[1]]
        return ty

    # ---- layout (x86-64)
    def sizeof(self, ty):
        return self.layout(ty)[0]
    def layout(self, ty):
        k = ty[0]
        if k == 'int':
            n = ty[1]
            b = 1
            while b * 8 < n: b *= 2
            return (b, min(b, 16) if b < 16 else 16)
        if k == 'double': return (8, 8)
        if k == 'float': return (4, 4)
        if k == 'ptr': return (8, 8)
        if k == 'named': return self.layout(self.m.named[ty[1]])
        if k == 'array':
            s, a = self.layout(ty[2])
            return (s * ty[1], a)
        if k == 'struct':
            off = 0; al = 1
            for e in ty[1]:
                s, a = self.layout(e)
                if ty[2]: a = 1
                off = (off + a - 1) // a * a
                off += s
                al = max(al, a)
            off = (off + al - 1) // al * al
            return (off, al)
        raise NotImplementedError("layout %r" % (ty,))

    # ---- constants
    def cconst(self, c, ty, toplevel_init=False):
        k = c[0]
        rty = self.resolve(ty)
        if k == 'int':
            v = c[1]
            if rty[0] == 'int':
                n = rty[1]
                v &= (1 << n) - 1
                if n > 64:
                    hi = v >> 64; lo = v & ((1 << 64) - 1)
                    return '((((u128)%dULL)<<64)|(u128)%dULL)' % (hi, lo)
                return '((%s)%dULL)' % (self.ct(rty), v)
            raise NotImplementedError("int const of type %r" % (ty,))
        if k == 'fp' and getattr(self, 'cur_lift', False) and rty == ('double',):
            v = c[1]
            if v != v or v in (float('inf'), float('-inf')):
                raise NotImplementedError("lift: non-finite double constant %r in %s" % (v, self.f.name))
            num, den = float(v).as_integer_ratio()   # den is a power of two: v = num * 2^-k exactly
            return '((LD){%dLL, %d, %d})' % (num, abs(num).bit_length(), -(den.bit_length() - 1))
        if k == 'fp':
            v = c[1]
            if v != v: return '(0.0/0.0)'
            if v in (float('inf'), float('-inf')): return '(%s1.0/0.0)' % ('-' if v < 0 else '')
            return '(' + float.hex(v) + ')' if not toplevel_init else float.hex(v)
        if k == 'null':
            return '((%s)0)' % self.ct(ty)
        if k in ('zero', 'undef'):
            if rty[0] in ('struct', 'array'):
                if toplevel_init: return '{0}'
                return '((%s){0})' % self.ct(ty)
            if rty[0] == 'ptr': return '((%s)0)' % self.ct(ty)
            if rty[0] in ('double', 'float'):
                return '((LD){0, 0, 0})' if (getattr(self, 'cur_lift', False) and rty == ('double',)) else '0.0'
            return '((%s)0)' % self.ct(ty)
        if k == 'gref':
            nm = c[1]
            nm = self.m.aliases.get(nm, nm)
            if nm in self.m.funcs or nm in self.m.decls:
                return '((%s)&%s)' % (self.ct(ty), self.gname(nm))
            return '(&%s)' % self.gname(nm)
        if k == 'str':
            body = ','.join(str(b) for b in c[1])
            if toplevel_init: return '{{%s}}' % body
            return '((%s){{%s}})' % (self.ct(ty), body)
        if k == 'struct':
            body = ', '.join(self.cconst(ec, ety, True) for ety, ec in c[1])
            if toplevel_init: return '{%s}' % body
            return '((%s){%s})' % (self.ct(ty), body)
        if k == 'array':
            body = ', '.join(self.cconst(ec, ety, True) for ety, ec in c[1])
            if toplevel_init: return '{{%s}}' % body
            return '((%s){{%s}})' % (self.ct(ty), body)
        if k == 'cast':
            op, cc, fty, tty = c[1:]
            inner = self.cconst(cc, fty)
            return '((%s)%s)' % (self.ct(tty), inner)
        if k == 'gep':
            bty, pty, base, idxs = c[1:]
            b = self.cconst(base, pty)
            expr, rt = self.gep_expr(b, pty, [(ity, self.cconst(ic, ity), ic) for ity, ic in idxs])
            return expr
        if k == 'bin':
            op, t1, a, b = c[1:]
            A = self.cconst(a, t1); B = self.cconst(b, t1)
            sym = {'add': '+', 'sub': '-', 'mul': '*', 'and': '&', 'or': '|', 'xor': '^', 'shl': '<<', 'lshr': '>>'}[op]
            return '((%s)(%s %s %s))' % (self.ct(t1), A, sym, B)
        raise NotImplementedError("cconst %r" % (c,))

    def gname(self, nm):
        if nm in ('malloc', 'free', 'memcpy', 'memmove', 'memset', '__CPROVER_assume', '__CPROVER_assert'):
            return nm
        return 'g_' + san(nm) if not re.fullmatch(r'[A-Za-z_][A-Za-z0-9_]*', nm) else nm

    def gep_expr(self, base, pty, idxs):
        """base: C expr of pointer type pty; idxs: list of (ity, cexpr, constAST or None). returns (expr, result ptr type)"""
        assert pty[0] == 'ptr', pty
        cur = pty[1]
        ity, ie, ic = idxs[0]
        def sidx(ity, ie):
            return '((s64)(%s)%s)' % (self.sct(ity), ie) if True else ie
        if ic is not None and ic[0] == 'int' and ic[1] == 0:
            acc = '(*%s)' % base
        else:
            acc = '(%s)[%s]' % (base, self.sx(ity, ie))
        for ity, ie, ic in idxs[1:]:
            r = self.resolve(cur)
            if r[0] == 'struct':
                assert ic is not None and ic[0] == 'int', "non-const struct idx"
                fi = ic[1]
                acc = '%s.f%d' % (acc, fi)
                cur = r[1][fi]
            elif r[0] == 'array':
                acc = '%s.e[%s]' % (acc, self.sx(ity, ie))
                cur = r[2]
            else:
                raise NotImplementedError("gep into %r" % (r,))
        return '(&%s)' % acc, ('ptr', cur)

    def sct(self, ity):
        return 's%d' % {1: 8}.get(ity[1], self.layout(ity)[0] * 8)

    def sx(self, ity, e):
        """sign-extend index expr to s64"""
        n = ity[1]
        if n in (8, 16, 32, 64):
            return '(s64)(s%d)%s' % (n, e)
        raise NotImplementedError("idx width %d" % n)

    # ---- module emission
    def emit(self):
        m = self.m
        o = self.out
        o.append('/* generated by ir2c prototype */')
        o.append('#include <stdint.h>\n#include <stddef.h>\n#include <string.h>\n#include <stdlib.h>\n#include <math.h>')
        o.append('typedef uint8_t u1; typedef uint8_t u8; typedef uint16_t u16; typedef uint32_t u32; typedef uint64_t u64; typedef unsigned __int128 u128;')
        o.append('typedef int8_t s8; typedef int16_t s16; typedef int32_t s32; typedef int64_t s64; typedef __int128 s128;')
        o.append(PRELUDE)
        body = []
        # function bodies first (collect typedefs), then print in right order
        protos = []
        for nm, (ret, args, va) in m.decls.items():
            if nm.startswith('llvm.') or nm in BUILTIN_DECLS: continue
            a = ', '.join(self.ct(t) for t in args) or 'void'
            if va: a += ', ...'
            protos.append('%s %s(%s);' % (self.ct(ret), self.gname(nm), a))
        for nm in m.order:
            f = m.funcs[nm]
            protos.append(self.proto(f) + ';')
        for nm in m.order:
            body.extend(self.emit_func(m.funcs[nm]))
        gl = []
        for nm, g in m.globals.items():
            cty = self.ct(g['ty'])
            if g['external'] or g['init'] is None:
                gl.append('extern %s %s;' % (cty, self.gname(nm)))
            else:
                gl.append('%s %s = %s;' % (cty, self.gname(nm), self.cconst(g['init'], g['ty'], True)))
        for a, t in m.aliases.items():
            gl.append('#define %s %s' % (self.gname(a), self.gname(t)))
        # named structs
        for nm, ty in m.named.items():
            cn = self.sname(nm)
            if ty[0] == 'opaque':
                continue
            fields = [(self.ct(e), 'f%d' % i, e) for i, e in enumerate(ty[1])]
            self.struct_defs[cn] = (fields, ty[2], False)
        # forward declare all
        for cn in self.struct_defs:
            o.append('struct %s;' % cn)
        for nm, ty in m.named.items():
            if ty[0] == 'opaque': o.append('struct %s;' % self.sname(nm))
        # need fn typedefs possibly referencing structs by pointer only -> fine after forward decls
        # but typedefs may be created during struct emission; iterate to fixpoint
        done = set()
        sdef_lines = []
        def emit_struct(cn):
            if cn in done: return
            done.add(cn)
            fields, packed, empty = self.struct_defs[cn]
            for cty, fn, ety in fields:
                self.dep_emit(ety, emit_struct)
            if empty or not fields:
                sdef_lines.append('struct %s { char _empty[0]; };' % cn)
                return
            sdef_lines.append('struct %s%s { %s };' % ('__attribute__((packed)) ' if packed else '', cn,
                              ' '.join('%s %s;' % (cty, fn) for cty, fn, ety in fields)))
        changed = True
        while changed:
            before = len(self.struct_defs)
            for cn in list(self.struct_defs):
                emit_struct(cn)
            changed = len(self.struct_defs) != before
        # fn typedefs use struct-by-value possibly; put after struct defs but structs use fn typedef names as fields (pointers) -> emit typedefs first with forward decl'd structs (pointers & by value both ok in fn typedef)
        o.extend(self.typedefs)
        o.extend(sdef_lines)
        for cty in sorted(self.need_mm):
            nm = san(cty)
            o.append('static void ir2c_memcpy_%s(%s* d, %s* s, size_t n) { size_t k = n / sizeof(%s); for (size_t i = 0; i < k; i++) d[i] = s[i]; }' % (nm, cty, cty, cty))
            o.append('static void ir2c_memmove_%s(%s* d, %s* s, size_t n) { size_t k = n / sizeof(%s); if (!__CPROVER_same_object(d, s) || (u8*)d <= (u8*)s) { for (size_t i = 0; i < k; i++) d[i] = s[i]; } else { for (size_t i = k; i > 0; i--) d[i-1] = s[i-1]; } }' % (nm, cty, cty, cty))
        o.extend(protos)
        o.extend(gl)
        o.extend(body)
        return '\n'.join(o) + '\n'

    def dep_emit(self, ety, emit_struct):
        r = ety
        if r[0] == 'named':
            cn = self.sname(r[1])
            if cn in self.struct_defs: emit_struct(cn)
        elif r[0] in ('array', 'struct'):
            cn = self.lit_typedef(r)
            emit_struct(cn)

    def is_lifted(self, name):
        return name in self.opts.get('lift', ())

    def lct(self, ty, lifted):
        if lifted and ty == ('double',): return 'LD'
        return self.ct(ty)

    def proto(self, f):
        lf = self.is_lifted(f.name)
        args = ', '.join('%s %s' % (self.lct(t, lf), 'a_' + san(n)) for t, n, info in f.params) or 'void'
        if f.va: args += ', ...'
        return '%s %s(%s)' % (self.lct(f.ret, lf), self.gname(f.name), args)

    # ---- function emission
    def emit_func(self, f):
        self.f = f
        self.cur_lift = self.is_lifted(f.name)
        self.vt = {}      # local name -> type
        self.vn = {}      # local name -> C name
        lines = []
        for t, n, info in f.params:
            self.vt[n] = t
            self.vn[n] = 'a_' + san(n)
        # pre-scan for result types
        insts = []
        for bn, bl in f.blocks:
            for s in bl:
                insts.append((bn, s))
        self.decls = []
        self.allocas = []
        self.p2i = {}
        self.gep_parent = {}
        self.newty = {}
        self.porig = {}
        parsed = {}
        for bn, bl in f.blocks:
            parsed[bn] = [self.parse_inst(s) for s in bl]
        for bn, _ in f.blocks:
            for ins in parsed[bn]:
                if ins['op'] == 'call' and ins['callee'][1:].strip('"') in ('_Znwm', '_Znam', '_ZnwmRKSt9nothrow_t') and ins['res'] is not None:
                    self.newty[self.vn[ins['res']]] = None
        for bn, _ in f.blocks:
            for ins in parsed[bn]:
                if ins['op'] == 'bitcast' and ins['v'] in self.newty and self.newty[ins['v']] is None:
                    t = self.resolve(ins['tty'])
                    if t[0] == 'ptr' and t[1][0] not in ('func', 'void', 'opaque') and not (t[1][0] == 'int' and t[1][1] == 8):
                        self.newty[ins['v']] = ins['tty'][1]
        f.blocks = self.layout_blocks(f, parsed)
        # declare vars
        # phi shadow handling
        blocks_phis = {bn: [i for i in parsed[bn] if i['op'] == 'phi'] for bn, _ in f.blocks}
        body = []
        for bi, (bn, _) in enumerate(f.blocks):
            body.append('BB_%s: ;' % san(bn))
            for ph in blocks_phis[bn]:
                body.append('  %s = %s__in;' % (self.vn[ph['res']], self.vn[ph['res']]))
            for ins in parsed[bn]:
                if ins['op'] == 'phi': continue
                for l in self.emit_inst(ins, bn, blocks_phis):
                    body.append('  ' + l)
        lines.append(self.proto(f) + ' {')
        for n, t in self.vt.items():
            if any(n == pn for _, pn, _ in f.params): continue
            if t[0] == 'void': continue
            lines.append('  %s %s;' % (self.lct(t, self.cur_lift), self.vn[n]))
        for bn in blocks_phis:
            for ph in blocks_phis[bn]:
                lines.append('  %s %s__in;' % (self.lct(ph['ty'], self.cur_lift), self.vn[ph['res']]))
        lines.extend('  ' + a for a in self.allocas)
        # byval prologue
        for t, n, info in f.params:
            if 'byval' in info:
                cn = self.vn[n]
                lines.append('  %s %s__bv = *%s; %s = &%s__bv;' % (self.ct(info['byval']), cn, cn, cn, cn))
        lines.extend(body)
        lines.append('}')
        return lines

    def layout_blocks(self, f, parsed):
        """Reorder basic blocks so that every natural loop is contiguous with its latch last and every other jump is
        forward. CBMC treats each textually backward goto as a loop and merges pending forward-jump states in program
        order; an unstructured layout makes it merge states of different iterations and mis-count unwindings."""
        names = [bn for bn, _ in f.blocks]
        idx = {bn: i for i, bn in enumerate(names)}
        succ = {}
        for bn in names:
            t = parsed[bn][-1] if parsed[bn] else None
            ss = []
            if t is not None:
                if t['op'] == 'br':
                    ss = [t['t']] + ([t['e']] if t['cond'] is not None else [])
                elif t['op'] == 'switch':
                    ss = [t['d']] + [cl for _, cl in t['cases']]
            seen = set(); succ[bn] = [x for x in ss if not (x in seen or seen.add(x))]
        entry = names[0]
        # reverse post-order (iterative DFS)
        order = []; state = {}
        stack = [(entry, iter(succ[entry]))]; state[entry] = 1
        while stack:
            n, it = stack[-1]
            for m in it:
                if m not in state:
                    state[m] = 1; stack.append((m, iter(succ[m]))); break
            else:
                order.append(n); stack.pop()
        rpo = order[::-1]
        reach = set(rpo)
        pred = {n: [] for n in rpo}
        for n in rpo:
            for m in succ[n]: pred[m].append(n)
        # dominators (Cooper-Harvey-Kennedy)
        rnum = {n: i for i, n in enumerate(rpo)}
        idom = {entry: entry}
        changed = True
        while changed:
            changed = False
            for n in rpo[1:]:
                ps = [p for p in pred[n] if p in idom]
                new = ps[0]
                for p in ps[1:]:
                    a, b = p, new
                    while a != b:
                        while rnum[a] > rnum[b]: a = idom[a]
                        while rnum[b] > rnum[a]: b = idom[b]
                    new = a
                if idom.get(n) != new: idom[n] = new; changed = True
        def dom(a, b):  # a dominates b
            while True:
                if a == b: return True
                if b == entry: return False
                b = idom[b]
        loops = {}  # header -> set of nodes
        for u in rpo:
            for h in succ[u]:
                if dom(h, u):
                    body = loops.setdefault(h, {h})
                    work = [u]
                    while work:
                        x = work.pop()
                        if x in body: continue
                        body.add(x); work.extend(pred[x])
        if not loops:
            return [(bn, dict(f.blocks)[bn]) for bn in rpo] + [(bn, bl) for bn, bl in f.blocks if bn not in reach]
        def layout(nodes, header):
            # maximal child loops strictly inside this region
            kids = [h for h in loops if h in nodes and h != header and loops[h] <= nodes]
            kids = [h for h in kids if not any(k != h and loops[h] < loops[k] for k in kids)]
            rep = {}
            for n in nodes: rep[n] = n
            for h in kids:
                for n in loops[h]: rep[n] = h
            reps = sorted(set(rep.values()), key=lambda n: rnum[n])
            indeg = {r: 0 for r in reps}; out = {r: set() for r in reps}
            for u in nodes:
                for v in succ[u]:
                    if v not in nodes or v == header: continue
                    ru, rv = rep[u], rep[v]
                    if ru != rv and rv not in out[ru]:
                        out[ru].add(rv); indeg[rv] += 1
            res = []; ready = sorted([r for r in reps if indeg[r] == 0], key=lambda n: rnum[n])
            done = set()
            while ready:
                r = ready.pop(0); done.add(r)
                if r in kids: res.extend(layout(loops[r], r))
                else: res.append(r)
                for v in sorted(out[r], key=lambda n: rnum[n]):
                    indeg[v] -= 1
                    if indeg[v] == 0: ready.append(v)
                ready.sort(key=lambda n: rnum[n])
            for r in reps:   # irreducible remainder: keep RPO
                if r not in done:
                    if r in kids: res.extend(x for x in sorted(loops[r], key=lambda n: rnum[n]) if x not in res)
                    else: res.append(r)
            return res
        final = layout(set(rpo), None)
        assert final[0] == entry and len(final) == len(set(final)) == len(rpo), (f.name, len(final), len(rpo))
        bd = dict(f.blocks)
        return [(bn, bd[bn]) for bn in final] + [(bn, bl) for bn, bl in f.blocks if bn not in reach]

    def defvar(self, name, ty):
        self.vt[name] = ty
        self.vn[name] = 'v_' + san(name)

    def parse_inst(self, s):
        # strip metadata attachments ", !foo !12"
        s = re.sub(r',\s*![a-zA-Z_.]+\s+![0-9]+', '', s)
        s = re.sub(r',\s*![a-zA-Z_.]+\s+!\{[^}]*\}', '', s)
        toks = tokenize(s)
        p = P(toks)
        ins = {'raw': s}
        res = None
        if p.peek(1) == '=' and p.peek()[0] == '%':
            res = p.next()[1:].strip('"'); p.next()
        ins['res'] = res
        while p.peek() in ('tail', 'musttail', 'notail'): p.next()
        op = p.next()
        ins['op'] = op
        def flags():
            while p.peek() in ('nsw', 'nuw', 'exact', 'nnan', 'ninf', 'nsz', 'arcp', 'contract', 'afn', 'reassoc', 'fast', 'inbounds', 'volatile'):
                ins.setdefault('flags', []).append(p.next())
        if op in ('add', 'sub', 'mul', 'udiv', 'sdiv', 'urem', 'srem', 'shl', 'lshr', 'ashr', 'and', 'or', 'xor',
                  'fadd', 'fsub', 'fmul', 'fdiv', 'frem'):
            flags()
            ty = parse_type(p)
            a = self.val(p, ty); p.expect(','); b = self.val(p, ty)
            ins.update(ty=ty, a=a, b=b); self.defvar(res, ty)
        elif op == 'fneg':
            flags(); ty = parse_type(p); a = self.val(p, ty)
            ins.update(ty=ty, a=a); self.defvar(res, ty)
        elif op in ('icmp', 'fcmp'):
            flags()
            pred = p.next(); ty = parse_type(p)
            a = self.val(p, ty); p.expect(','); b = self.val(p, ty)
            ins.update(pred=pred, ty=ty, a=a, b=b); self.defvar(res, ('int', 1))
        elif op == 'load':
            flags()
            ty = parse_type(p); p.expect(',')
            pty = parse_type(p); ptr = self.val(p, pty)
            ins.update(ty=ty, ptr=ptr, pty=pty); self.defvar(res, ty)
        elif op == 'store':
            flags()
            ty = parse_type(p); v = self.val(p, ty); p.expect(',')
            pty = parse_type(p); ptr = self.val(p, pty)
            ins.update(ty=ty, v=v, ptr=ptr, pty=pty)
        elif op == 'getelementptr':
            flags()
            bty = parse_type(p); p.expect(',')
            pty = parse_type(p); base = self.val(p, pty)
            idxs = []
            while p.accept(','):
                if p.peek() == 'align': break
                ity = parse_type(p)
                save = p.i
                tok = p.peek()
                ic = ('int', int(tok)) if re.fullmatch(r'-?\d+', tok) else None
                ie = self.val(p, ity)
                idxs.append((ity, ie, ic))
            expr, rty = self.gep_expr(base, pty, idxs)
            ins.update(expr=expr); self.defvar(res, rty)
            # remember "address of field K of struct S" so that memcpy of a struct tail can be lowered to field assignments
            if len(idxs) >= 2 and idxs[-1][2] is not None and idxs[-1][2][0] == 'int':
                pexpr, prty = self.gep_expr(base, pty, idxs[:-1]) if len(idxs) > 2 else (None, None)
                if len(idxs) == 2 and idxs[0][2] is not None and idxs[0][2] == ('int', 0):
                    parent_lv, parent_ty = '(*%s)' % base, pty[1]
                elif pexpr is not None:
                    parent_lv, parent_ty = '(*%s)' % pexpr, prty[1]
                else:
                    parent_lv = None
                if parent_lv is not None and self.resolve(parent_ty)[0] == 'struct':
                    self.gep_parent['v_' + san(res)] = (parent_lv, parent_ty, idxs[-1][2][1])
        elif op in ('bitcast', 'ptrtoint', 'inttoptr', 'trunc', 'zext', 'sext', 'fptosi', 'fptoui', 'sitofp', 'uitofp', 'fpext', 'fptrunc', 'addrspacecast'):
            fty = parse_type(p); v = self.val(p, fty); p.expect('to'); tty = parse_type(p)
            ins.update(fty=fty, v=v, tty=tty); self.defvar(res, tty)
        elif op == 'freeze':
            ty = parse_type(p); v = self.val(p, ty)
            ins.update(ty=ty, v=v); self.defvar(res, ty)
        elif op == 'select':
            flags()
            cty = parse_type(p); c = self.val(p, cty); p.expect(',')
            ty = parse_type(p); a = self.val(p, ty); p.expect(',')
            ty2 = parse_type(p); b = self.val(p, ty2)
            ins.update(c=c, ty=ty, a=a, b=b); self.defvar(res, ty)
        elif op == 'phi':
            flags()
            ty = parse_type(p)
            inc = []
            while True:
                p.expect('[')
                # value may reference later-defined var: keep tokens lazily
                start = p.i
                depth = 0
                while not (p.peek() == ',' and depth == 0):
                    t = p.next()
                    if t in ('(', '[', '{'): depth += 1
                    if t in (')', ']', '}'): depth -= 1
                vtoks = p.t[start:p.i]
                p.expect(',')
                lbl = p.next()[1:].strip('"')
                p.expect(']')
                inc.append((vtoks, lbl))
                if not p.accept(','): break
            ins.update(ty=ty, inc=inc); self.defvar(res, ty)
        elif op == 'alloca':
            p.accept('inalloca')
            ty = parse_type(p)
            cnt = None
            if p.accept(','):
                if p.peek() != 'align':
                    cty = parse_type(p); cnt = self.val(p, cty)
            ins.update(ty=ty, cnt=cnt); self.defvar(res, ('ptr', ty))
        elif op == 'br':
            if p.peek() == 'label':
                p.next(); ins.update(cond=None, t=p.next()[1:].strip('"'))
            else:
                cty = parse_type(p); c = self.val(p, cty); p.expect(',')
                p.expect('label'); t = p.next()[1:].strip('"'); p.expect(',')
                p.expect('label'); e = p.next()[1:].strip('"')
                ins.update(cond=c, t=t, e=e)
        elif op == 'switch':
            ty = parse_type(p); v = self.val(p, ty); p.expect(',')
            p.expect('label'); d = p.next()[1:].strip('"')
            p.expect('[')
            cases = []
            while not p.accept(']'):
                cty = parse_type(p); cv = int(p.next()); p.expect(',')
                p.expect('label'); cl = p.next()[1:].strip('"')
                cases.append((cv, cl))
            ins.update(ty=ty, v=v, d=d, cases=cases)
        elif op == 'ret':
            ty = parse_type(p)
            v = None if ty[0] == 'void' else self.val(p, ty)
            ins.update(ty=ty, v=v)
        elif op == 'unreachable':
            pass
        elif op == 'call':
            flags()
            while p.peek() in LINKAGE or p.peek() in PARAM_ATTRS or p.peek() in ATTR_CALL:
                if p.peek() in LINKAGE: p.next()
                else: skip_attrs(p)
            rty = parse_type(p)
            # rty may be a full function type "ret (args)*" when varargs / indirect
            fty = None
            if rty[0] == 'func':
                # "call <fnty> @callee(...)" form (varargs / mismatched prototypes): the type given is the callee's function type
                fty = rty; rty = fty[1]
            callee_tok = p.next()
            if callee_tok == 'bitcast':
                # call through a constant-expression cast of a known function: treat as a direct call
                p.expect('('); parse_type(p); callee_tok = p.next(); p.expect('to'); parse_type(p); p.expect(')')
                ins['castcall'] = True
            args = []
            p.expect('(')
            if not p.accept(')'):
                while True:
                    aty = parse_type(p)
                    skip_attrs(p)
                    if aty[0] == 'metadata':
                        # skip metadata arg
                        while p.peek() not in (',', ')'): p.next()
                        args.append((aty, None))
                    else:
                        args.append((aty, self.val(p, aty)))
                    if p.accept(')'): break
                    p.expect(',')
            ins.update(rty=rty, callee=callee_tok, args=args, fty=fty)
            if res is not None: self.defvar(res, rty)
        elif op in ('extractvalue',):
            ty = parse_type(p); v = self.val(p, ty)
            idx = []
            while p.accept(','): idx.append(int(p.next()))
            cur = ty
            for i in idx:
                r = self.resolve(cur)
                cur = r[1][i] if r[0] == 'struct' else r[2]
            ins.update(ty=ty, v=v, idx=idx); self.defvar(res, cur)
        elif op == 'insertvalue':
            ty = parse_type(p); v = self.val(p, ty); p.expect(',')
            ety = parse_type(p); ev = self.val(p, ety)
            idx = []
            while p.accept(','): idx.append(int(p.next()))
            ins.update(ty=ty, v=v, ev=ev, idx=idx); self.defvar(res, ty)
        else:
            raise NotImplementedError("inst %s: %s" % (op, s))
        return ins

    def val(self, p, ty):
        t = p.peek()
        if t[0] == '%':
            p.next()
            nm = t[1:].strip('"')
            return 'v_' + san(nm) if nm not in self.vn or not self.vn[nm].startswith('a_') else self.vn[nm]
        c = parse_const(p, ty)
        return self.cconst(c, ty)

    def val_toks(self, toks, ty):
        p = P(toks)
        return self.val(p, ty)

    def phi_copies(self, frm, to, blocks_phis):
        out = []
        for ph in blocks_phis.get(to, []):
            for vtoks, lbl in ph['inc']:
                if lbl == frm:
                    out.append('%s__in = %s;' % (self.vn[ph['res']], self.val_toks(vtoks, ph['ty'])))
                    break
            else:
                raise RuntimeError("phi in %s has no incoming from %s" % (to, frm))
        return out

    def mask(self, ty, e):
        n = ty[1]
        if n in (8, 16, 32, 64, 128): return '(%s)(%s)' % (self.ct(ty), e)
        if n == 1: return '(u1)((%s) & 1)' % e
        return '(%s)((%s) & ((((%s)1) << %d) - 1))' % (self.ct(ty), e, self.ct(ty), n)

    def sgn(self, ty, e):
        """signed view of int value e of type ty as sN C type"""
        n = ty[1]
        if n in (8, 16, 32, 64, 128): return '((s%d)%s)' % (n, e)
        if n == 1: return '((s8)-(s8)%s)' % e
        w = self.layout(ty)[0] * 8
        return '((s%d)((s%d)(%s << %d) >> %d))' % (w, w, e, w - n, w - n)

    def emit_inst(self, ins, bn, blocks_phis):
        op = ins['op']; r = ins['res']
        R = self.vn.get(r) if r is not None else None
        L = []
        if op == 'sub' and ins['a'] in self.p2i and ins['b'] in self.p2i and ins['ty'][1] == 64:
            pa, pb = self.p2i[ins['a']], self.p2i[ins['b']]
            L.append('%s = ((void*)%s == (void*)%s) ? (u64)0 : (u64)(s64)((u8*)%s - (u8*)%s);' % (R, pa, pb, pa, pb))
        elif op in ('add', 'sub', 'mul', 'and', 'or', 'xor'):
            ty = ins['ty']; sym = {'add': '+', 'sub': '-', 'mul': '*', 'and': '&', 'or': '|', 'xor': '^'}[op]
            if self.opts.get('check_nsw') and 'nsw' in ins.get('flags', []) and op in ('add', 'sub', 'mul'):
                n = ty[1]
                if n <= 64:
                    big = 's128'
                    L.append('{ %s _t = (%s)%s %s (%s)%s; __CPROVER_assert(_t == (%s)(s%d)_t, "nsw %s i%d overflow in %s"); }' % (
                        big, big, self.sgn(ty, ins['a']), sym, big, self.sgn(ty, ins['b']), big, self.layout(ty)[0]*8, op, n, self.f.name[:60]))
            L.append('%s = %s;' % (R, self.mask(ty, '%s %s %s' % (ins['a'], sym, ins['b']))))
        elif op in ('udiv', 'urem'):
            ty = ins['ty']; sym = '/' if op == 'udiv' else '%'
            L.append('%s = %s;' % (R, self.mask(ty, '%s %s %s' % (ins['a'], sym, ins['b']))))
        elif op in ('sdiv', 'srem'):
            ty = ins['ty']; sym = '/' if op == 'sdiv' else '%'
            L.append('%s = %s;' % (R, self.mask(ty, '%s %s %s' % (self.sgn(ty, ins['a']), sym, self.sgn(ty, ins['b'])))))
        elif op in ('shl', 'lshr'):
            ty = ins['ty']; sym = '<<' if op == 'shl' else '>>'
            L.append('%s = %s;' % (R, self.mask(ty, '%s %s %s' % (ins['a'], sym, ins['b']))))
        elif op == 'ashr':
            ty = ins['ty']
            L.append('%s = %s;' % (R, self.mask(ty, '%s >> %s' % (self.sgn(ty, ins['a']), ins['b']))))
        elif op in ('fadd', 'fsub', 'fmul', 'fdiv') and self.cur_lift and ins['ty'] == ('double',):
            if op == 'fdiv': raise NotImplementedError("lift: fdiv in %s" % self.f.name)
            L.append('%s = ld_%s(%s, %s);' % (R, op[1:], ins['a'], ins['b']))
        elif op in ('fadd', 'fsub', 'fmul', 'fdiv'):
            sym = {'fadd': '+', 'fsub': '-', 'fmul': '*', 'fdiv': '/'}[op]
            L.append('%s = %s %s %s;' % (R, ins['a'], sym, ins['b']))
        elif op == 'fneg' and self.cur_lift and ins['ty'] == ('double',):
            L.append('%s = ld_neg(%s);' % (R, ins['a']))
        elif op == 'fneg':
            L.append('%s = -%s;' % (R, ins['a']))
        elif op == 'icmp':
            ty = self.resolve(ins['ty']); pred = ins['pred']; a = ins['a']; b = ins['b']
            if ty[0] == 'ptr':
                sym = {'eq': '==', 'ne': '!=', 'ult': '<', 'ule': '<=', 'ugt': '>', 'uge': '>=', 'slt': '<', 'sle': '<=', 'sgt': '>', 'sge': '>='}[pred]
                if pred in ('eq', 'ne'):
                    L.append('%s = (u1)((void*)%s %s (void*)%s);' % (R, a, sym, b))
                else:
                    L.append('%s = (u1)((u8*)%s %s (u8*)%s);' % (R, a, sym, b))
            elif a in self.p2i and b in self.p2i and pred in ('eq', 'ne'):
                L.append('%s = (u1)((void*)%s %s (void*)%s);' % (R, self.p2i[a], '==' if pred == 'eq' else '!=', self.p2i[b]))
            else:
                if pred[0] == 's':
                    a = self.sgn(ty, a); b = self.sgn(ty, b)
                sym = {'eq': '==', 'ne': '!=', 'ult': '<', 'ule': '<=', 'ugt': '>', 'uge': '>=', 'slt': '<', 'sle': '<=', 'sgt': '>', 'sge': '>='}[pred]
                L.append('%s = (u1)(%s %s %s);' % (R, a, sym, b))
        elif op == 'fcmp' and self.cur_lift and ins['ty'] == ('double',):
            pred = ins['pred']; a = ins['a']; b = ins['b']
            base = {'eq': '==', 'gt': '>', 'ge': '>=', 'lt': '<', 'le': '<=', 'ne': '!='}
            if pred in ('ord', 'true'): e = '1'
            elif pred in ('uno', 'false'): e = '0'
            else: e = '(ld_cmp(%s, %s) %s 0)' % (a, b, base[pred[1:]])
            L.append('%s = (u1)(%s);' % (R, e))
        elif op == 'fcmp':
            pred = ins['pred']; a = ins['a']; b = ins['b']
            unord = '(isnan(%s) || isnan(%s))' % (a, b)
            base = {'eq': '==', 'gt': '>', 'ge': '>=', 'lt': '<', 'le': '<=', 'ne': '!='}
            if pred == 'ord': e = '!%s' % unord
            elif pred == 'uno': e = unord
            elif pred == 'true': e = '1'
            elif pred == 'false': e = '0'
            elif pred[0] == 'o':
                e = '(!%s && (%s %s %s))' % (unord, a, base[pred[1:]], b)
            else:
                e = '(%s || (%s %s %s))' % (unord, a, base[pred[1:]], b)
            L.append('%s = (u1)(%s);' % (R, e))
        elif op == 'load':
            if self.cur_lift and ins['ty'] == ('double',): raise NotImplementedError("lift: load of double in %s" % self.f.name)
            L.append('%s = *%s;' % (R, ins['ptr']))
        elif op == 'store':
            if self.cur_lift and ins['ty'] == ('double',): raise NotImplementedError("lift: store of double in %s" % self.f.name)
            L.append('*%s = %s;' % (ins['ptr'], ins['v']))
        elif op == 'getelementptr':
            L.append('%s = %s;' % (R, ins['expr']))
        elif op == 'bitcast':
            f = self.resolve(ins['fty']); t = self.resolve(ins['tty'])
            if f[0] == 'ptr' and t[0] == 'ptr':
                if t[1] == ('int', 8) and f[1][0] not in ('func', 'void', 'opaque', 'int'):
                    self.porig[R] = (ins['v'], f[1])
                if t[1] == ('int', 8) and ins['v'] in self.gep_parent:
                    self.gep_parent[R] = self.gep_parent[ins['v']]
                L.append('%s = (%s)%s;' % (R, self.ct(ins['tty']), ins['v']))
            else:
                L.append('{ %s _s = %s; memcpy(&%s, &_s, sizeof(%s)); }' % (self.ct(ins['fty']), ins['v'], R, R))
        elif op == 'ptrtoint':
            self.p2i[R] = ins['v']
            L.append('%s = (%s)(uintptr_t)%s;' % (R, self.ct(ins['tty']), ins['v']))
        elif op == 'inttoptr':
            L.append('%s = (%s)(uintptr_t)%s;' % (R, self.ct(ins['tty']), ins['v']))
        elif op == 'trunc':
            L.append('%s = %s;' % (R, self.mask(ins['tty'], ins['v'])))
        elif op == 'zext':
            L.append('%s = (%s)%s;' % (R, self.ct(ins['tty']), ins['v']))
        elif op == 'sext':
            L.append('%s = %s;' % (R, self.mask(ins['tty'], '(s%d)%s' % (self.layout(ins['tty'])[0]*8, self.sgn(ins['fty'], ins['v'])))))
        elif op in ('sitofp', 'uitofp') and self.cur_lift and ins['tty'] == ('double',):
            src = self.sgn(ins['fty'], ins['v']) if op == 'sitofp' else ins['v']
            L.append('%s = ld_from(%s);' % (R, src) if ins['fty'][1] <= 64 and op == 'sitofp' else '%s = ld_fromu(%s);' % (R, src))
        elif op in ('fptosi', 'fptoui') and self.cur_lift and ins['fty'] == ('double',):
            L.append('%s = %s;' % (R, self.mask(ins['tty'], '(s%d)ld_to_int(%s)' % (self.layout(ins['tty'])[0]*8, ins['v']))))
        elif op == 'sitofp':
            L.append('%s = (%s)%s;' % (R, self.ct(ins['tty']), self.sgn(ins['fty'], ins['v'])))
        elif op == 'uitofp':
            L.append('%s = (%s)%s;' % (R, self.ct(ins['tty']), ins['v']))
        elif op == 'fptosi':
            L.append('%s = %s;' % (R, self.mask(ins['tty'], '(s%d)%s' % (self.layout(ins['tty'])[0]*8, ins['v']))))
        elif op == 'fptoui':
            L.append('%s = %s;' % (R, self.mask(ins['tty'], '(%s)%s' % (self.ct(ins['tty']), ins['v']))))
        elif op in ('fpext', 'fptrunc'):
            L.append('%s = (%s)%s;' % (R, self.ct(ins['tty']), ins['v']))
        elif op == 'freeze':
            L.append('%s = %s;' % (R, ins['v']))
        elif op == 'select':
            L.append('%s = %s ? %s : %s;' % (R, ins['c'], ins['a'], ins['b']))
        elif op == 'alloca':
            st = R + '__st'
            if ins['cnt'] is None:
                self.allocas.append('%s %s;' % (self.ct(ins['ty']), st))
                L.append('%s = &%s;' % (R, st))
            else:
                L.append('%s = (%s*)malloc(sizeof(%s) * (size_t)%s);' % (R, self.ct(ins['ty']), self.ct(ins['ty']), ins['cnt']))
        elif op == 'br':
            if ins['cond'] is None:
                L.extend(self.phi_copies(bn, ins['t'], blocks_phis))
                L.append('goto BB_%s;' % san(ins['t']))
            else:
                a = ' '.join(self.phi_copies(bn, ins['t'], blocks_phis))
                b = ' '.join(self.phi_copies(bn, ins['e'], blocks_phis))
                L.append('if (%s) { %s goto BB_%s; } else { %s goto BB_%s; }' % (ins['cond'], a, san(ins['t']), b, san(ins['e'])))
        elif op == 'switch':
            ty = ins['ty']
            L.append('switch (%s) {' % ins['v'])
            for cv, cl in ins['cases']:
                cv &= (1 << ty[1]) - 1
                L.append('  case %dULL: { %s goto BB_%s; }' % (cv, ' '.join(self.phi_copies(bn, cl, blocks_phis)), san(cl)))
            L.append('  default: { %s goto BB_%s; }' % (' '.join(self.phi_copies(bn, ins['d'], blocks_phis)), san(ins['d'])))
            L.append('}')
        elif op == 'ret':
            L.append('return;' if ins['v'] is None else 'return %s;' % ins['v'])
        elif op == 'unreachable':
            L.append('__CPROVER_assert(0, "llvm unreachable reached"); __CPROVER_assume(0);')
        elif op == 'extractvalue':
            acc = ins['v']
            cur = ins['ty']
            for i in ins['idx']:
                rr = self.resolve(cur)
                if rr[0] == 'struct': acc += '.f%d' % i; cur = rr[1][i]
                else: acc += '.e[%d]' % i; cur = rr[2]
            L.append('%s = %s;' % (R, acc))
        elif op == 'insertvalue':
            L.append('%s = %s;' % (R, ins['v']))
            acc = R; cur = ins['ty']
            for i in ins['idx']:
                rr = self.resolve(cur)
                if rr[0] == 'struct': acc += '.f%d' % i; cur = rr[1][i]
                else: acc += '.e[%d]' % i; cur = rr[2]
            L.append('%s = %s;' % (acc, ins['ev']))
        elif op == 'call':
            L.extend(self.emit_call(ins, R))
        else:
            raise NotImplementedError(op)
        return L


    def prefix_paths(self, ty, n):
        """list of (access-suffix, type) of leading sub-objects of ty that together cover exactly n bytes, or None"""
        r = self.resolve(ty)
        sz = self.layout(ty)[0]
        if sz == n:
            return [('', ty)]
        if n > sz or n <= 0:
            return None
        if r[0] == 'struct':
            off = 0
            out = []
            for i, e in enumerate(r[1]):
                s_, a_ = self.layout(e)
                if r[2]: a_ = 1
                off = (off + a_ - 1) // a_ * a_
                if off >= n:
                    break
                rem = n - off
                if s_ <= rem:
                    out.append(('.f%d' % i, e))
                    off += s_
                    if off == n: return out
                else:
                    sub = self.prefix_paths(e, rem)
                    if sub is None: return None
                    return out + [('.f%d%s' % (i, sfx), t) for sfx, t in sub]
            return out if off == n else None
        if r[0] == 'array':
            es = self.layout(r[2])[0]
            if es and n % es == 0:
                return [('.e[%d]' % i, r[2]) for i in range(n // es)]
            return None
        return None

    def typed_mem(self, kind, av, R=None):
        """try to lower memcpy/memmove/memset with constant size to typed assignments"""
        mm = re.fullmatch(r'\(\(u64\)(\d+)ULL\)', av[2])
        d = self.porig.get(av[0])
        if kind == 'memset':
            if not mm or d is None or av[1] != '((u8)0ULL)': return None
            n = int(mm.group(1))
            paths = self.prefix_paths(d[1], n)
            if paths is None: return None
            out = []
            for sfx, t in paths:
                out.append('(*%s)%s = %s;' % (d[0], sfx, self.cconst(('zero',), t)))
            return out
        sorig = self.porig.get(av[1])
        if mm and kind == 'memcpy' and av[0] in self.gep_parent and av[1] in self.gep_parent:
            (dl, dty, dk), (sl, sty, sk) = self.gep_parent[av[0]], self.gep_parent[av[1]]
            if dty == sty and dk == sk:
                r = self.resolve(dty); n = int(mm.group(1))
                # field offsets of the parent struct
                off = 0; offs = []
                for e in r[1]:
                    s_, a_ = self.layout(e)
                    if r[2]: a_ = 1
                    off = (off + a_ - 1) // a_ * a_
                    offs.append((off, s_)); off += s_
                start = offs[dk][0]; out = []; k = dk
                while k < len(offs) and offs[k][0] + offs[k][1] <= start + n:
                    out.append('%s.f%d = %s.f%d;' % (dl, k, sl, k)); k += 1
                covered_end = offs[k - 1][0] + offs[k - 1][1] if k > dk else start
                next_start = offs[k][0] if k < len(offs) else self.layout(dty)[0]
                if k > dk and covered_end <= start + n <= next_start:
                    return out     # n bytes = fields dk..k-1 plus padding only
        if not mm or d is None or sorig is None: return None
        n = int(mm.group(1))
        if d[1] != sorig[1]:
            # allow when the leading sub-objects have identical type lists
            pd = self.prefix_paths(d[1], n); ps = self.prefix_paths(sorig[1], n)
            if pd is None or ps is None or [t for _, t in pd] != [t for _, t in ps]: return None
        else:
            pd = self.prefix_paths(d[1], n); ps = pd
            if pd is None:
                es = self.layout(d[1])[0]
                if es and n % es == 0:
                    k = n // es
                    if kind == 'memmove':
                        return ['{ %s _tmp[%d]; for (int _i = 0; _i < %d; _i++) _tmp[_i] = (%s)[_i]; for (int _i = 0; _i < %d; _i++) (%s)[_i] = _tmp[_i]; }' % (self.ct(d[1]), k, k, sorig[0], k, d[0])]
                    return ['for (int _i = 0; _i < %d; _i++) (%s)[_i] = (%s)[_i];' % (k, d[0], sorig[0])]
                return None
        if kind == 'memmove' and len(pd) > 1:
            return None
        return ['(*%s)%s = (*%s)%s;' % (d[0], a, sorig[0], b) for (a, _), (b, _) in zip(pd, ps)]


    def var_mem(self, kind, av):
        """variable-size memcpy/memmove between same-typed origins -> typed element loop"""
        if kind == 'memset': return None
        d = self.porig.get(av[0]); so = self.porig.get(av[1])
        if d is None or so is None or d[1] != so[1]: return None
        es = self.layout(d[1])[0]
        mm = re.fullmatch(r'\(\(u64\)(\d+)ULL\)', av[2])
        if mm and (es == 0 or int(mm.group(1)) % es != 0):
            return None     # constant size that is not a whole number of elements (e.g. a struct tail copy): byte-level memcpy
        cty = self.ct(d[1])
        self.need_mm.add(cty)
        chk = [] if mm else ['__CPROVER_assert(((size_t)%s %% sizeof(%s)) == 0, "IR2C:typed memcpy size is not a whole number of elements");' % (av[2], cty)]
        return chk + ['ir2c_%s_%s(%s, %s, (size_t)%s);' % (kind, san(cty), d[0], so[0], av[2])]

    def emit_call(self, ins, R):
        c = ins['callee']
        args = [a for a in ins['args']]
        av = [v for t, v in args]
        asg = (R + ' = ') if R is not None and ins['rty'][0] != 'void' else ''
        if c[0] == '@':
            nm = c[1:].strip('"')
            nm = self.m.aliases.get(nm, nm)
            if nm.startswith('llvm.'):
                base = nm
                if base.startswith(('llvm.lifetime', 'llvm.dbg', 'llvm.experimental.noalias', 'llvm.invariant', 'llvm.assume')):
                    return []
                if base.startswith('llvm.mem'):
                    tm = self.typed_mem(base.split('.')[1], av)
                    if tm is not None: return tm
                    tv = self.var_mem(base.split('.')[1], av)
                    if tv is not None: return tv
                if base.startswith('llvm.memcpy'): return ['memcpy(%s, %s, (size_t)%s);' % (av[0], av[1], av[2])]
                if base.startswith('llvm.memmove'): return ['memmove(%s, %s, (size_t)%s);' % (av[0], av[1], av[2])]
                if base.startswith('llvm.memset'): return ['memset(%s, (int)%s, (size_t)%s);' % (av[0], av[1], av[2])]
                if base == 'llvm.fabs.f64' and self.cur_lift: return ['%sld_abs(%s);' % (asg, av[0])]
                if self.cur_lift and any(t == ('double',) for t, v in args) or (self.cur_lift and ins['rty'] == ('double',)):
                    raise NotImplementedError("lift: intrinsic %s in %s" % (base, self.f.name))
                if base == 'llvm.fabs.f64': return ['%sfabs(%s);' % (asg, av[0])]
                if base == 'llvm.nearbyint.f64': return ['%snearbyint(%s);' % (asg, av[0])]
                if base == 'llvm.nearbyint.f32': return ['%snearbyintf(%s);' % (asg, av[0])]
                if base == 'llvm.fabs.f32': return ['%sfabsf(%s);' % (asg, av[0])]
                if base == 'llvm.rint.f64': return ['%srint(%s);' % (asg, av[0])]
                if base == 'llvm.round.f64': return ['%sround(%s);' % (asg, av[0])]
                if base == 'llvm.floor.f64': return ['%sfloor(%s);' % (asg, av[0])]
                if base == 'llvm.ceil.f64': return ['%sceil(%s);' % (asg, av[0])]
                if base == 'llvm.trunc.f64': return ['%strunc(%s);' % (asg, av[0])]
                if base == 'llvm.sqrt.f64': return ['%ssqrt(%s);' % (asg, av[0])]
                if base == 'llvm.fmuladd.f64': return ['%s(%s * %s) + %s;' % (asg, av[0], av[1], av[2])]
                if base in ('llvm.minnum.f64',): return ['%sfmin(%s, %s);' % (asg, av[0], av[1])]
                if base in ('llvm.maxnum.f64',): return ['%sfmax(%s, %s);' % (asg, av[0], av[1])]
                mm = re.fullmatch(r'llvm\.abs\.i(\d+)', base)
                if mm:
                    n = int(mm.group(1)); ty = ('int', n)
                    return ['%s%s;' % (asg, self.mask(ty, '(%s < 0 ? -%s : %s)' % (self.sgn(ty, av[0]), self.sgn(ty, av[0]), self.sgn(ty, av[0]))))]
                mm = re.fullmatch(r'llvm\.(s|u)(min|max)\.i(\d+)', base)
                if mm:
                    ty = ('int', int(mm.group(3)))
                    a, b = av[0], av[1]
                    if mm.group(1) == 's': ca, cb = self.sgn(ty, a), self.sgn(ty, b)
                    else: ca, cb = a, b
                    cmp = '<' if mm.group(2) == 'min' else '>'
                    return ['%s(%s %s %s) ? %s : %s;' % (asg, ca, cmp, cb, a, b)]
                if base.startswith('llvm.is.constant'): return ['%s0;' % asg]
                if base.startswith('llvm.expect.'): return ['%s%s;' % (asg, av[0])]
                if base == 'llvm.trap': return ['__CPROVER_assert(0, "llvm.trap"); __CPROVER_assume(0);']
                if base.startswith('llvm.stacksave'): return ['%s(u8*)0;' % asg]
                if base.startswith('llvm.stackrestore'): return []
                mm = re.fullmatch(r'llvm\.ctlz\.i64', base)
                if mm: return ['%sir2c_ctlz64(%s);' % (asg, av[0])]
                mm = re.fullmatch(r'llvm\.cttz\.i64', base)
                if mm: return ['%sir2c_cttz64(%s);' % (asg, av[0])]
                mm = re.fullmatch(r'llvm\.umul\.with\.overflow\.i64', base)
                if mm:
                    return ['{ u128 _p = (u128)%s * (u128)%s; %s.f0 = (u64)_p; %s.f1 = (u1)((_p >> 64) != 0); }' % (av[0], av[1], R, R)]
                mm = re.fullmatch(r'llvm\.uadd\.with\.overflow\.i64', base)
                if mm:
                    return ['{ u128 _p = (u128)%s + (u128)%s; %s.f0 = (u64)_p; %s.f1 = (u1)((_p >> 64) != 0); }' % (av[0], av[1], R, R)]
                raise NotImplementedError("intrinsic " + base)
            if nm in ('_Znwm', '_Znam', '_ZnwmRKSt9nothrow_t'):
                ety = self.newty.get(R)
                if ety is not None:
                    cty = self.ct(ety)
                    return ['%s(u8*)malloc(sizeof(%s) * ((size_t)%s / sizeof(%s))); __CPROVER_assume(%s != 0);' % (asg, cty, av[0], cty, R)]
                return ['%s(u8*)malloc((size_t)%s); __CPROVER_assume(%s != 0);' % (asg, av[0], R)]
            if nm in ('_ZdlPv', '_ZdaPv', '_ZdlPvm', '_ZdaPvm'):
                if self.opts.get('no_free'): return ['/* delete elided (--no-free): deallocation is not modelled in this obligation */;']
                return ['free(%s);' % av[0]]
            if nm == '__CPROVER_assume':
                return ['__CPROVER_assume(%s);' % av[0]]
            if nm == 'verif_assert':
                return ['VF_ASSERT(%s, "VA:?");' % av[0]]
            if nm in ('verif_assert_at', 'verif_known_at'):
                mline = re.fullmatch(r'\(\(u32\)(\d+)ULL\)', av[1])
                ln = mline.group(1) if mline else '?'
                tag = 'VA' if nm == 'verif_assert_at' else 'KNOWN'
                return ['VF_ASSERT(%s, "%s:%s:%s");' % (av[0], tag, self.opts.get('tu', 'tu'), ln)]
            if nm == 'verif_reach':
                return ['VF_REACH();']
            if nm in ('__cxa_atexit', '__cxa_thread_atexit'):
                return [(asg + '0;') if asg else ';']
            callee = self.gname(nm)
            if ins.get('castcall'):
                ptys = None
                if nm in self.m.funcs: ptys = [t for t, n_, i_ in self.m.funcs[nm].params]
                elif nm in self.m.decls: ptys = list(self.m.decls[nm][1])
                if ptys is not None and len(ptys) == len(args):
                    av = ['((%s)%s)' % (self.ct(pt), v) if (pt != t and self.resolve(pt)[0] == 'ptr') else v for pt, (t, v) in zip(ptys, args)]
            cl = self.is_lifted(nm)
            has_d = any(t == ('double',) for t, v in args)
            if cl != self.cur_lift and has_d:
                raise NotImplementedError("lift boundary: double argument in call %s -> %s" % (self.f.name, nm))
            if self.cur_lift and not cl and ins['rty'] == ('double',):
                raise NotImplementedError("lift boundary: double result of non-lifted %s in %s" % (nm, self.f.name))
            if cl and not self.cur_lift and ins['rty'] == ('double',) and asg:
                return ['%sld_to_double(%s(%s));' % (asg, callee, ', '.join(av))]
            return ['%s%s(%s);' % (asg, callee, ', '.join(av))]
        else:
            # indirect
            _n = c[1:].strip('"')
            fp = self.vn[_n] if _n in self.vn else 'v_' + san(_n)
            if ins['fty'] is not None:
                fty = ins['fty']
            else:
                fty = ('func', ins['rty'], tuple(t for t, v in args), False)
            ftd = self.fn_typedef(fty)
            return ['%s((%s)%s)(%s);' % (asg, ftd, fp, ', '.join(av))]

BUILTIN_DECLS = {'verif_assert_at', 'verif_known_at', 'verif_reach', '_Znwm', '_Znam', '_ZdlPv', '_ZdaPv', '_ZdlPvm', '_ZdaPvm', '_ZnwmRKSt9nothrow_t', '__CPROVER_assume', 'verif_assert',
                 '__cxa_atexit', '__cxa_thread_atexit', 'memcpy', 'memmove', 'memset', 'malloc', 'free', 'round', 'nearbyint', 'sqrt', 'sin', 'cos', 'acos', 'atan2',
                 'ceil', 'floor', 'fabs', 'pow', 'log10', 'ilogb', 'rint', 'fmin', 'fmax', 'hypot', 'llabs', 'abs', 'memcmp', 'strlen', 'abort'}

PRELUDE = r'''
void __CPROVER_assume(_Bool);
#ifdef VF_NATIVE
#define __CPROVER_same_object(a, b) 1
void vf_native_assert(int c, const char *m); void vf_native_assume(int c); void vf_native_reach(void);
#define __CPROVER_assert(c, m) vf_native_assert(!!(c), m)
#define __CPROVER_assume(c) vf_native_assume(!!(c))
#define VF_ASSERT(c, m) vf_native_assert(!!(c), m)
#define VF_REACH() vf_native_reach()
#elif defined(VF_WITNESS)
#define VF_ASSERT(c, m) ((void)(c))
#define VF_REACH() __CPROVER_assert(0, "VF_WITNESS")
#else
#define VF_ASSERT(c, m) __CPROVER_assert(c, m)
#define VF_REACH() ((void)0)
#endif
/* exact-integer shadow of a double (DESIGN 1.5): value v with a static-style bound g on its bit length, propagated by
   interval rules (mul: g1+g2, add/sub: max+1). g <= 53 is asserted at every operation, which implies |v| < 2^53, hence the
   IEEE-754 binary64 operation the shadow stands for is exact. The bound is deliberately computed from bounds, not from the
   product bits, so that the solver never has to reason about the magnitude of a multiplier output. */
typedef struct { s64 v; s32 g; s32 e; } LD;   /* value = v * 2^e ; e is always a translation-time constant (0 or the exponent of a dyadic constant) */
static inline s32 ir2c_bits(u64 a) { s32 n = 0;
  if (a >> 32) { n += 32; a >>= 32; } if (a >> 16) { n += 16; a >>= 16; } if (a >> 8) { n += 8; a >>= 8; }
  if (a >> 4) { n += 4; a >>= 4; } if (a >> 2) { n += 2; a >>= 2; } if (a >> 1) { n += 1; a >>= 1; } return n + (s32)a; }
#define LIFT_ASSERT(c) VF_ASSERT(c, "LIFT:double arithmetic not provably exact (bit-length bound exceeds 53)")
static inline LD ld_from(s64 x) { LD r; r.v = x; r.g = ir2c_bits(x < 0 ? (u64)0 - (u64)x : (u64)x); r.e = 0; LIFT_ASSERT(r.g <= 53); return r; }
static inline LD ld_fromu(u64 x) { LD r; r.v = (s64)x; r.g = ir2c_bits(x); r.e = 0; LIFT_ASSERT(r.g <= 53); return r; }
/* bring a to exponent e <= a.e (exact: multiplies v by a power of two, bound grows accordingly) */
static inline LD ld_align(LD a, s32 e) { LD r = a; if (a.e > e) { s32 d = a.e - e; LIFT_ASSERT(a.g + d <= 53); r.v = (s64)((u64)a.v << d); r.g = a.g + d; r.e = e; } return r; }
static inline LD ld_add(LD a, LD b) { s32 e = a.e < b.e ? a.e : b.e; a = ld_align(a, e); b = ld_align(b, e); LD r; r.v = (s64)((u64)a.v + (u64)b.v); r.g = (a.g > b.g ? a.g : b.g) + 1; r.e = e; LIFT_ASSERT(r.g <= 53); return r; }
static inline LD ld_sub(LD a, LD b) { s32 e = a.e < b.e ? a.e : b.e; a = ld_align(a, e); b = ld_align(b, e); LD r; r.v = (s64)((u64)a.v - (u64)b.v); r.g = (a.g > b.g ? a.g : b.g) + 1; r.e = e; LIFT_ASSERT(r.g <= 53); return r; }
static inline LD ld_mul(LD a, LD b) { LD r; r.v = (s64)((u64)a.v * (u64)b.v); r.g = a.g + b.g; r.e = a.e + b.e; LIFT_ASSERT(r.g <= 53); return r; }
static inline LD ld_neg(LD a) { LD r; r.v = (s64)((u64)0 - (u64)a.v); r.g = a.g; r.e = a.e; return r; }
static inline LD ld_abs(LD a) { return a.v < 0 ? ld_neg(a) : a; }
static inline int ld_cmp(LD a, LD b) { s32 e = a.e < b.e ? a.e : b.e; a = ld_align(a, e); b = ld_align(b, e); return (a.v > b.v) - (a.v < b.v); }
static inline double ld_to_double(LD a) { LIFT_ASSERT(a.e == 0 || a.e == -1); return a.e == 0 ? (double)a.v : (double)a.v * 0.5; }
static inline s64 ld_to_int(LD a) { LIFT_ASSERT(a.e == 0); return a.v; }
static inline u64 ir2c_ctlz64(u64 x) { u64 n = 0; if (x == 0) return 64; if (!(x >> 32)) { n += 32; x <<= 32; } if (!(x >> 48)) { n += 16; x <<= 16; } if (!(x >> 56)) { n += 8; x <<= 8; } if (!(x >> 60)) { n += 4; x <<= 4; } if (!(x >> 62)) { n += 2; x <<= 2; } if (!(x >> 63)) { n += 1; } return n; }
static inline u64 ir2c_cttz64(u64 x) { if (x == 0) return 64; return 63 - ir2c_ctlz64(x & (~x + 1)); }
static inline void *ir2c_new(size_t n) { void *p = malloc(n ? n : 1); __CPROVER_assume(p != 0); return p; }
'''

def main():
    src = sys.argv[1]; dst = sys.argv[2]
    opts = {'check_nsw': '--check-nsw' in sys.argv, 'tu': 'tu', 'no_free': '--no-free' in sys.argv}
    for a in sys.argv[3:]:
        if a.startswith('--tu='): opts['tu'] = a[5:]
        if a.startswith('--lift='): opts.setdefault('lift', set()).update(x for x in a[7:].split(',') if x)
    m = parse_module(open(src).read())
    e = Emitter(m, opts)
    c = e.emit()
    open(dst, 'w').write(c)
    sys.stderr.write("ir2c: %d functions, %d globals, %d named types\n" % (len(m.funcs), len(m.globals), len(m.named)))

if __name__ == '__main__':
    main()
