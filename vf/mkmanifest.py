#!/usr/bin/env python3
"""Regenerates /verif/MANIFEST.json from props/*.py (META of each property) and properties.jsonl."""
import json, os, sys, importlib.util
VERIF = os.path.dirname(os.path.dirname(os.path.abspath(__file__)))
sys.path.insert(0, os.path.join(VERIF, 'vf'))
from run import O
def load(pid):
    path = os.path.join(VERIF, 'props', pid + '.py')
    if not os.path.exists(path): return None
    spec = importlib.util.spec_from_file_location('prop_' + pid, path)
    mod = importlib.util.module_from_spec(spec); mod.O = O
    spec.loader.exec_module(mod)
    return mod
props = [json.loads(l) for l in open(os.path.join(VERIF, 'properties.jsonl'))]
NA = json.load(open(os.path.join(VERIF, 'vf', 'not_applicable.json')))
checks = []; na = []
hooks_commits = [l.strip() for l in open(os.path.join(VERIF, 'vf', 'hook_commits.txt')) if l.strip()] if os.path.exists(os.path.join(VERIF, 'vf', 'hook_commits.txt')) else []
for p in props:
    pid = p['id']
    mod = load(pid)
    if mod is None or not getattr(mod, 'OBLIGATIONS', None):
        na.append(dict(property_id=pid, reason=NA.get(pid, 'no obligation of this property has been built yet')))
        continue
    meta = mod.META
    checks.append(dict(
        property_id=pid,
        quick_cmd='./check %s --tier quick' % pid,
        thorough_cmd='./check %s --tier thorough' % pid,
        evidence_file='evidence/%s.json' % pid,
        replay_cmd_template='./check %s --replay {path}' % pid,
        engine='ir2c+cbmc',
        level_claimed=dict(category='model_checking', text=meta['level_text'], design_ref=meta.get('design_ref', 'DESIGN.md section 2, ' + pid)),
        level_note=meta['level_note'],
        technique=meta.get('technique', 'bounded symbolic execution of the real functions (LLVM IR of /repo -> C -> CBMC 6.11 with SAT/SMT back ends); counterexamples replayed natively')))
man = dict(
    version=1,
    setup_cmd='sh ./setup.sh',
    hooks=dict(guard='ANGUSJOHNSON_CLIPPER2_VERIF', enable='harness TUs are compiled by clang++-14 with -DANGUSJOHNSON_CLIPPER2_VERIF directly from /repo/CPP/Clipper2Lib (no library build step)',
               baseline_off_cmd='sh /verif/baseline_off.sh', source_commits=hooks_commits, add_only=True),
    engines=[dict(name='ir2c+cbmc', path='vf/run.py', serves_properties=[c['property_id'] for c in checks],
                  kind_free_text='clang++-14 -emit-llvm of harness TUs that #include the real Clipper2 sources -> opt-14 -> vf/ir2c.py (own LLVM-IR-to-C translator) -> cbmc 6.11 (minisat/cadical/kissat/z3/cvc5 back ends); native replay of counterexamples on the clang-compiled IR')],
    checks=checks,
    notes='All checks regenerate their encoding from /repo working tree on every run (content-hash keyed cache in /verif/build). See DESIGN.md.',
    not_applicable=na)
json.dump(man, open(os.path.join(VERIF, 'MANIFEST.json'), 'w'), indent=1)
print('MANIFEST: %d checks, %d not_applicable' % (len(checks), len(na)))
