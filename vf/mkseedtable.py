#!/usr/bin/env python3
"""Regenerates the seeds table of DESIGN.md section 6 from seeded/*/meta.json."""
import json, glob, os, re
V = os.path.dirname(os.path.dirname(os.path.abspath(__file__)))
rows = []
for p in sorted(glob.glob(os.path.join(V, 'seeded', '*', 'meta.json'))):
    d = json.load(open(p)); name = os.path.basename(os.path.dirname(p))
    summ = re.sub(r'\s+', ' ', d.get('summary', '')).replace('|', '/')
    if len(summ) > 230: summ = summ[:230] + '…'
    if d.get('caught_by'): c = d['caught_by']
    else: c = '**not caught** — ' + d.get('not_caught_because', '?')
    rows.append('| %s | %s | %s |' % (name, summ, c.replace('|', '/')))
tab = '| seed | change | caught by |\n|---|---|---|\n' + '\n'.join(rows) + '\n'
s = open(os.path.join(V, 'DESIGN.md')).read()
a = s.index('| seed | change | caught by |'); b = s.index('\n## 7.', a)
s = s[:a] + tab + s[b:]
open(os.path.join(V, 'DESIGN.md'), 'w').write(s)
n = sum(1 for r in rows if 'not caught' in r)
print('seeds: %d, not caught: %d' % (len(rows), n))
