/* CBMC-side runtime: nondet sources that log their values (for replay), and library stubs. */
#include <stdint.h>
#include <stddef.h>
void __CPROVER_assume(_Bool);
void __CPROVER_assert(_Bool, const char *);
#define VF_MAXIN 256
uint64_t vf_in[VF_MAXIN];
unsigned vf_n;
uint64_t nondet_vfraw_u64(void);   /* undefined: CBMC nondet */
static uint64_t vf_next(void) {
  uint64_t v = nondet_vfraw_u64();
  __CPROVER_assume(vf_n < VF_MAXIN);
  vf_in[vf_n] = v;
  __CPROVER_assume(vf_in[vf_n] == v);   /* keeps the log inside the cone of influence when --slice-formula is used */
  vf_n++;
  return v;
}
int64_t nondet_i64(void) { return (int64_t)vf_next(); }
uint64_t nondet_u64(void) { return vf_next(); }
int32_t nondet_i32(void) { uint64_t v = vf_next(); __CPROVER_assume(v <= 0xffffffffULL); return (int32_t)(uint32_t)v; }
uint8_t nondet_u8(void) { uint64_t v = vf_next(); __CPROVER_assume(v <= 0xffULL); return (uint8_t)v; }
uint8_t nondet_bool(void) { uint64_t v = vf_next(); __CPROVER_assume(v <= 1ULL); return (uint8_t)v; }
double nondet_double(void) { union { uint64_t u; double d; } x; x.u = vf_next(); return x.d; }
void out_i64(int64_t v) { (void)v; }
void out_f64(double v) { (void)v; }
/* libstdc++ / runtime stubs (listed in evidence) */
void _ZSt20__throw_length_errorPKc(void *s) { __CPROVER_assert(0, "STUB:throw_length_error reached"); __CPROVER_assume(0); }
void _ZSt17__throw_bad_allocv(void) { __CPROVER_assert(0, "STUB:throw_bad_alloc reached"); __CPROVER_assume(0); }
void _ZSt28__throw_bad_array_new_lengthv(void) { __CPROVER_assert(0, "STUB:throw_bad_array_new_length reached"); __CPROVER_assume(0); }
void _ZSt24__throw_out_of_range_fmtPKcz(void *s, ...) { __CPROVER_assert(0, "STUB:throw_out_of_range reached"); __CPROVER_assume(0); }
void _ZSt25__throw_bad_function_callv(void) { __CPROVER_assert(0, "STUB:throw_bad_function_call reached"); __CPROVER_assume(0); }
void _ZNSt8ios_base4InitC1Ev(void *p) { (void)p; }
void _ZNSt8ios_base4InitD1Ev(void *p) { (void)p; }
unsigned char g___dso_handle;
unsigned char __dso_handle;
char _ZSt7nothrow;
