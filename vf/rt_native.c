/* Native replay runtime: nondet_* read the recorded values, verif asserts report and exit.
   exit codes: 0 = harness completed with no assertion failure, 3 = assertion failed, 4 = assumption violated,
   5 = ran out of recorded inputs. Linked with (a) the clang-compiled IR of the real code, or (b) the gcc-compiled generated C. */
#include <stdint.h>
#include <stdio.h>
#include <stdlib.h>
#include <string.h>
#include <dlfcn.h>
static uint64_t vals[4096]; static unsigned nvals, pos; static int selftest;
static uint64_t nextv(void) { if (selftest) return 0; if (pos >= nvals) { printf("REPLAY: out of inputs\n"); exit(5); } return vals[pos++]; }
int64_t nondet_i64(void) { return (int64_t)nextv(); }
uint64_t nondet_u64(void) { return nextv(); }
int32_t nondet_i32(void) { return (int32_t)(uint32_t)nextv(); }
uint8_t nondet_u8(void) { return (uint8_t)nextv(); }
uint8_t nondet_bool(void) { return (uint8_t)(nextv() & 1); }
double nondet_double(void) { union { uint64_t u; double d; } x; x.u = nextv(); return x.d; }
void out_i64(int64_t v) { printf("o %lld\n", (long long)v); }
void out_f64(double v) { printf("f %a\n", v); }
void __CPROVER_assume(_Bool c) { if (!c) { printf("REPLAY: assumption violated\n"); exit(4); } }
void verif_assert_at(_Bool ok, int line) { if (!ok) { printf("REPLAY: VA line %d FAILED\n", line); fflush(stdout); exit(3); } }
void verif_known_at(_Bool ok, int line) { if (!ok) { printf("REPLAY: KNOWN line %d FAILED\n", line); fflush(stdout); exit(3); } }
void verif_reach(void) { }
void vf_native_assert(int c, const char *m) { if (!c) { printf("REPLAY: %s FAILED\n", m); fflush(stdout); exit(3); } }
void vf_native_assume(int c) { if (!c) { printf("REPLAY: assumption violated\n"); exit(4); } }
void vf_native_reach(void) { }
int main(int argc, char **argv) {
  if (argc < 2) { fprintf(stderr, "usage: %s <harness_fn> [inputs-file]\n", argv[0]); return 2; }
  void (*fn)(void) = (void (*)(void))dlsym(RTLD_DEFAULT, argv[1]);
  if (!fn) { fprintf(stderr, "no such harness %s\n", argv[1]); return 2; }
  if (argc >= 3) {
    FILE *f = fopen(argv[2], "r"); if (!f) { perror(argv[2]); return 2; }
    char line[256];
    while (fgets(line, sizeof line, f)) { if (line[0] == '#' || line[0] == '\n') continue; if (!strncmp(line, "in ", 3)) vals[nvals++] = strtoull(line + 3, 0, 0); }
    fclose(f);
  } else selftest = 1;
  fn();
  printf("REPLAY: completed\n");
  return 0;
}
