#!/usr/bin/env python3
"""Driver for solver-based checks of Clipper2 (see /verif/DESIGN.md).

usage: run.py <property-id> [--tier quick|thorough] [--only <substr>] [--replay <file>] [--keep] [--jobs N]

Pipeline per harness TU (regenerated from /repo's working tree whenever its content hash changes):
  clang++-14 -O0 -emit-llvm  ->  opt-14 (mem2reg, simplifycfg, early-cse, adce, loop-simplify, globaldce)
  -> call-site substitution (abstraction by contract) -> ir2c.py -> C -> cbmc 6.11
Counterexamples are replayed natively against the clang-compiled IR of the real code before being reported.
"""
import sys, os, re, json, time, hashlib, subprocess, shutil, importlib.util, resource, signal, threading
from concurrent.futures import ThreadPoolExecutor, as_completed

VERIF = os.path.dirname(os.path.dirname(os.path.abspath(__file__)))
VF = os.path.join(VERIF, 'vf')
REPO = os.environ.get('VERIF_REPO', '/repo')
LIB = os.path.join(REPO, 'CPP', 'Clipper2Lib')
BUILD = os.environ.get('VERIF_BUILD', os.path.join(VERIF, 'build'))
REPLAYDIR = os.environ.get('VERIF_REPLAY', os.path.join(VERIF, 'replay'))
EVIDENCEDIR = os.environ.get('VERIF_EVIDENCE', os.path.join(VERIF, 'evidence'))
PARTIAL_RUN = False
GUARD = 'ANGUSJOHNSON_CLIPPER2_VERIF'
MEM_LIMIT = 24 << 30

CLANG_FLAGS = ['-std=c++17', '-O0', '-Xclang', '-disable-O0-optnone', '-fno-exceptions', '-fno-rtti',
               '-ffp-contract=off', '-fno-access-control', '-fno-threadsafe-statics', '-D' + GUARD,
               '-I' + os.path.join(LIB, 'include'), '-I' + LIB, '-I' + VF, '-I' + os.path.join(VERIF, 'harness'),
               '-Wno-everything', '-S', '-emit-llvm']
FRONTEND_VERSION = 'fe-3'   # bump when build_variant's pipeline changes
OPT_PASSES = 'function(mem2reg,simplifycfg,early-cse,adce,loop-simplify),globaldce'

BACKENDS = {
    'sat': [],
    'cadical': ['--sat-solver', 'cadical'],
    'kissat': ['--external-sat-solver', 'kissat'],
    'z3': ['--z3'],
    'cvc5': ['--cvc5'],
    'cvc5int': ['--cvc5', '--slice-formula'],   # with PATH shim: cvc5 --solve-bv-as-int=sum
}

class O:
    """One proof obligation: a harness function of a harness TU, with its bounds."""
    def __init__(self, name, tu, fn, unwind=2, unwindset=None, backend='sat', defs=(), cdefs=(), replace=None,
                 nsw=False, tiers='qt', timeout=None, flags=(), bound='', desc='', no_checks=False,
                 usingz=False, known=None, object_bits=12, replay_sanitize=False, depth=None, olevel='O0', crosscheck=False, lift=(), expect_from=None, kind='cbmc', allow_globals=(), no_free=False, scan_struct=None, allow_writers=(), scan_calls=True):
        self.name = name; self.tu = tu; self.fn = fn; self.unwind = unwind; self.unwindset = unwindset or []
        self.backend = backend if isinstance(backend, (list, tuple)) else [backend]
        self.defs = tuple(defs) + (('USINGZ',) if usingz else ()); self.cdefs = tuple(cdefs)
        self.replace = dict(replace or {}); self.nsw = nsw; self.tiers = tiers
        self.timeout = timeout; self.flags = list(flags); self.bound = bound; self.desc = desc
        self.no_checks = no_checks; self.known = known; self.object_bits = object_bits
        self.replay_sanitize = replay_sanitize; self.depth = depth; self.olevel = olevel; self.crosscheck = crosscheck; self.lift = tuple(lift); self.expect_from = expect_from; self.kind = kind; self.allow_globals = tuple(allow_globals); self.no_free = no_free; self.scan_struct = scan_struct; self.allow_writers = tuple(allow_writers); self.scan_calls = scan_calls
    def variant(self):
        h = hashlib.sha1(repr((self.defs, sorted(self.replace.items()), self.nsw, self.olevel, self.lift, self.no_free)).encode()).hexdigest()[:8]
        return '%s-%s' % (os.path.splitext(self.tu)[0], h)

def log(*a):
    print(*a, flush=True)

def sh(cmd, **kw):
    return subprocess.run(cmd, stdout=subprocess.PIPE, stderr=subprocess.STDOUT, text=True, **kw)

def file_hash(paths):
    h = hashlib.sha1()
    for p in sorted(paths):
        h.update(p.encode())
        with open(p, 'rb') as f:
            h.update(f.read())
    return h.hexdigest()

def source_files():
    out = []
    for root, _, files in os.walk(LIB):
        for f in files:
            if f.endswith(('.h', '.cpp')):
                out.append(os.path.join(root, f))
    # front-end inputs only: the translator and the headers harness TUs include (run.py itself is covered by FRONTEND_VERSION)
    out += [os.path.join(VF, 'ir2c.py'), os.path.join(VF, 'harness.h')]
    for f in os.listdir(os.path.join(VERIF, 'harness')):
        if f.endswith('.h'):
            out.append(os.path.join(VERIF, 'harness', f))
    return out

_src_hash = None
def src_hash():
    global _src_hash
    if _src_hash is None:
        _src_hash = file_hash(source_files()) + FRONTEND_VERSION + repr(CLANG_FLAGS[:-7]) + OPT_PASSES
    return _src_hash

class BuildError(Exception):
    pass

_build_lock = threading.Lock()
_build_locks = {}
_built = {}

def demangle_map(names):
    p = subprocess.run(['llvm-cxxfilt-14'], input='\n'.join(names), stdout=subprocess.PIPE, text=True)
    return dict(zip(names, p.stdout.split('\n')))

def substitute(ll_text, replace):
    """replace call targets: key = prefix of the demangled (or exact mangled) callee name, value = replacement symbol."""
    if not replace:
        return ll_text, {}
    names = sorted(set(re.findall(r'@("(?:[^"\\]|\\.)*"|[-a-zA-Z$._0-9]+)', ll_text)))
    names = [n.strip('"') for n in names]
    dm = demangle_map(names)
    mapping = {}
    for key, stub in replace.items():
        plain = ('(' not in key and ':' not in key)   # plain C symbol: exact match only
        if key.endswith('$'):   # exact demangled name
            hits = [n for n in names if dm.get(n, '') == key[:-1]]
        else:
            hits = [n for n in names if n == key or (not plain and dm.get(n, '').startswith(key))]
        hits = [n for n in hits if n != stub]
        if not hits:
            raise BuildError('replace: no function matches %r' % key)
        for n in hits:
            mapping[n] = stub
    def fix_line(line):
        s = line.lstrip()
        if not (' call ' in line or s.startswith('call ') or ' invoke ' in line or s.startswith('invoke ') or s.startswith('tail call')):
            return line
        for n, stub in mapping.items():
            for form in ('@' + n + '(', '@"' + n + '"('):
                if form in line:
                    line = line.replace(form, '@' + stub + '(')
        return line
    return '\n'.join(fix_line(l) for l in ll_text.split('\n')), {dm.get(k, k): v for k, v in mapping.items()}

def resolve_expectations(o):
    """expect_from=(tu, defs, fn): run fn of another (native, real-code) build and pass what it prints as -DEXPECT_<k>=<value>."""
    if not o.expect_from or getattr(o, '_expect_done', False): return
    tu, defs, fn = o.expect_from
    other = O('expect-' + fn, tu, fn, defs=defs)
    info = build_variant(other)
    exe = build_replay(info)
    r = subprocess.run([exe, fn], stdout=subprocess.PIPE, text=True, timeout=120)
    vals = [l.split()[1] for l in r.stdout.split('\n') if l.startswith('o ')]
    if r.returncode != 0 or not vals: raise BuildError('expectation run %s failed: %s' % (fn, r.stdout[-300:]))
    o.defs = tuple(o.defs) + tuple('EXPECT_%d=%sLL' % (k, v) for k, v in enumerate(vals))
    o.expectations = dict(source='%s:%s (native run of the real code)' % (tu, fn), values=vals)
    o._expect_done = True

def build_variant(o):
    """front end for (tu, defs, replace, nsw). Returns dict with paths and stats."""
    resolve_expectations(o)
    v = o.variant()
    with _build_lock:
        lk = _build_locks.setdefault(v, threading.Lock())
    with lk:
        if v in _built:
            return _built[v]
        d = os.path.join(BUILD, v)
        os.makedirs(d, exist_ok=True)
        src = os.path.join(VERIF, 'harness', o.tu)
        stamp = hashlib.sha1((src_hash() + file_hash([src]) + repr((o.defs, sorted(o.replace.items()), o.nsw, o.olevel, o.lift, o.no_free))).encode()).hexdigest()
        info_path = os.path.join(d, 'info.json')
        if os.path.exists(info_path):
            try:
                info = json.load(open(info_path))
                if info.get('stamp') == stamp and os.path.exists(info['c']):
                    _built[v] = info
                    return info
            except Exception:
                pass
        for f in os.listdir(d):
            os.unlink(os.path.join(d, f))
        t0 = time.time()
        ll = os.path.join(d, 'h.ll'); oll = os.path.join(d, 'h.opt.ll'); sll = os.path.join(d, 'h.sub.ll'); c = os.path.join(d, 'h.c')
        flags = list(CLANG_FLAGS)
        passes = OPT_PASSES; extra_opt = []
        if o.olevel == 'O1':
            i0 = flags.index('-O0'); flags[i0:i0 + 3] = ['-O1', '-fno-vectorize', '-fno-slp-vectorize', '-fno-unroll-loops']
        elif o.olevel == 'INL':
            # O1 attributes without LLVM passes, then our own pipeline: inline everything (stubs are noinline), promote to SSA
            i0 = flags.index('-O0'); flags[i0:i0 + 3] = ['-O1', '-Xclang', '-disable-llvm-passes']
            passes = 'cgscc(inline),function(sroa,mem2reg,simplifycfg,early-cse,adce,loop-simplify),globaldce'
            extra_opt = ['-inline-threshold=1000000']
        r = sh(['clang++-14'] + flags + ['-D%s' % x for x in o.defs] + [src, '-o', ll])
        if r.returncode != 0:
            raise BuildError('clang failed for %s:\n%s' % (o.tu, r.stdout[-4000:]))
        text0, mapping = substitute(open(ll).read(), o.replace)
        open(oll, 'w').write(text0)
        r = sh(['opt-14', '-S', '-passes=' + passes] + extra_opt + [oll, '-o', sll])
        if r.returncode != 0:
            raise BuildError('opt failed for %s:\n%s' % (o.tu, r.stdout[-4000:]))
        text = open(sll).read()
        cmd = [sys.executable, os.path.join(VF, 'ir2c.py'), sll, c, '--tu=' + o.tu]
        if o.nsw: cmd.append('--check-nsw')
        if o.no_free: cmd.append('--no-free')
        lifted = []
        if o.lift:
            fnames = sorted(set(n.strip('"') for n in re.findall(r'^define [^@]*@("(?:[^"\\]|\\.)*"|[-a-zA-Z$._0-9]+)\(', text, re.M)))
            dm = demangle_map(fnames)
            for key in o.lift:
                hits = [n for n in fnames if n == key or dm.get(n, '').startswith(key)]
                if not hits: raise BuildError('lift: no function matches %r' % key)
                lifted += hits
            cmd.append('--lift=' + ','.join(lifted))
        r = sh(cmd)
        if r.returncode != 0:
            raise BuildError('ir2c failed for %s:\n%s' % (o.tu, r.stdout[-4000:]))
        mm = re.search(r'ir2c: (\d+) functions', r.stdout)
        info = dict(stamp=stamp, dir=d, ll=ll, sll=sll, c=c, tu=o.tu, defs=list(o.defs), olevel=o.olevel, replaced=mapping, lifted=[demangle_map(lifted).get(x, x) for x in lifted] if o.lift else [],
                    ir_functions=int(mm.group(1)) if mm else -1, ir_lines=text.count('\n'), c_lines=open(c).read().count('\n'),
                    front_s=round(time.time() - t0, 2))
        json.dump(info, open(info_path, 'w'))
        _built[v] = info
        return info

def _dirlock(d):
    with _build_lock:
        return _build_locks.setdefault('native:' + d, threading.Lock())

def build_replay(info, sanitize=False):
    with _dirlock(info['dir']):
        return _build_replay(info, sanitize)

def _build_replay(info, sanitize=False):
    exe = os.path.join(info['dir'], 'replay_san' if sanitize else 'replay')
    if os.path.exists(exe) and os.path.getmtime(exe) >= os.path.getmtime(info['sll']):
        return exe
    cmd = ['clang++-14', '-O0', '-g0', '-Wno-everything', '-fno-exceptions', '-ffp-contract=off', info['sll'], '-x', 'c', os.path.join(VF, 'rt_native.c'),
           '-o', exe, '-rdynamic', '-ldl', '-lm']
    if sanitize:
        cmd[1:1] = ['-fsanitize=address,undefined', '-fno-sanitize-recover=all']
    r = sh(cmd)
    if r.returncode != 0:
        raise BuildError('replay build failed:\n' + r.stdout[-3000:])
    return exe

def build_replay_cpp_san(o, info):
    with _dirlock(info['dir']):
        return _build_replay_cpp_san(o, info)

def _build_replay_cpp_san(o, info):
    """the harness C++ source (real code, no substitutions) compiled natively with ASan+UBSan"""
    exe = os.path.join(info['dir'], 'replay_cppsan')
    src = os.path.join(VERIF, 'harness', o.tu)
    if os.path.exists(exe) and os.path.getmtime(exe) >= os.path.getmtime(info['sll']):
        return exe
    flags = [f for f in CLANG_FLAGS if f not in ('-S', '-emit-llvm', '-O0', '-Xclang', '-disable-O0-optnone')]
    rto = os.path.join(info['dir'], 'rt_san.o')
    r = sh(['clang-14', '-O0', '-w', '-c', os.path.join(VF, 'rt_native.c'), '-o', rto])
    if r.returncode == 0:
        r = sh(['clang++-14', '-O0', '-g', '-fsanitize=address,undefined', '-fno-sanitize-recover=all'] + flags + ['-D%s' % x for x in o.defs] +
               [src, rto, '-o', exe, '-rdynamic', '-ldl', '-lm'])
    if r.returncode != 0:
        raise BuildError('sanitizer replay build failed:\n' + r.stdout[-3000:])
    return exe

def build_cnative(info):
    with _dirlock(info['dir']):
        return _build_cnative(info)

def _build_cnative(info):
    """generated C compiled natively by gcc (translator self-test)"""
    exe = os.path.join(info['dir'], 'cnative')
    if os.path.exists(exe) and os.path.getmtime(exe) >= os.path.getmtime(info['c']):
        return exe
    obj = os.path.join(info['dir'], 'h.o'); rto = os.path.join(info['dir'], 'rt.o')
    r = sh(['gcc', '-O0', '-w', '-DVF_NATIVE', '-ffp-contract=off', '-fno-strict-aliasing', '-fwrapv', '-c', info['c'], '-o', obj])
    if r.returncode == 0:
        r = sh(['gcc', '-O0', '-w', '-c', os.path.join(VF, 'rt_native.c'), '-o', rto])
    if r.returncode == 0:
        r = sh(['g++', obj, rto, '-o', exe, '-rdynamic', '-ldl', '-lm'])   # libstdc++ supplies the runtime symbols the IR references
    if r.returncode != 0:
        raise BuildError('cnative build failed:\n' + r.stdout[-3000:])
    return exe

RES_RE = re.compile(r'^\[(\S+)\] (?:line \d+ )?(.*): (SUCCESS|FAILURE|UNKNOWN)$')

def _limits():
    resource.setrlimit(resource.RLIMIT_AS, (MEM_LIMIT, MEM_LIMIT))
    os.setsid()

def run_cbmc_once(o, info, backend, witness, timeout, outdir, cancel=None):
    tag = '%s.%s.%s' % (o.name.replace('/', '_'), backend, 'w' if witness else 'p')
    outfile = os.path.join(outdir, tag + '.out')
    cmd = ['/usr/bin/time', '-f', 'VF_RSS_KB=%M', 'cbmc', info['c'], os.path.join(VF, 'rt_cbmc.c'), '--function', o.fn,
           '--drop-unused-functions', '--no-malloc-may-fail', '--object-bits', str(o.object_bits), '--max-field-sensitivity-array-size', '256',
           '--unwind', str(o.unwind), '--verbosity', '8']
    for us in o.unwindset:
        cmd += ['--unwindset', us]
    if o.depth: cmd += ['--depth', str(o.depth)]
    cmd += ['-D' + x for x in o.cdefs]
    if witness:
        cmd += ['-DVF_WITNESS', '--no-standard-checks', '--no-unwinding-assertions', '--trace']
    else:
        cmd += ['--unwinding-assertions', '--trace']
        if o.no_checks:
            cmd += ['--no-standard-checks', '--unwinding-assertions']
        cmd += o.flags
    cmd += BACKENDS[backend]
    env = dict(os.environ)
    if backend == 'cvc5int':
        env['PATH'] = os.path.join(VF, 'shim') + ':' + env['PATH']
    # solver scratch files (e.g. the CNF handed to an external SAT solver) go to a private directory that is removed afterwards:
    # a cancelled or timed-out back end would otherwise leave them behind in /tmp
    tmpd = outfile + '.tmp'
    shutil.rmtree(tmpd, ignore_errors=True); os.makedirs(tmpd, exist_ok=True)
    env['TMPDIR'] = tmpd
    t0 = time.time()
    with open(outfile, 'w') as f:
        wrapped = ['bash', '-c', 'set -o pipefail; "$@" 2>&1 | grep -v "^Unwinding \\(loop\\|recursion\\)"', 'vf'] + cmd
        p = subprocess.Popen(wrapped, stdout=f, stderr=subprocess.STDOUT, env=env, preexec_fn=_limits)
        timed_out = False; cancelled = False
        while True:
            try:
                p.wait(timeout=0.25)
                break
            except subprocess.TimeoutExpired:
                if time.time() - t0 > timeout: timed_out = True
                elif cancel is not None and cancel.is_set(): cancelled = True
                else: continue
                try: os.killpg(p.pid, signal.SIGKILL)
                except Exception: pass
                p.wait()
                break
    dt = time.time() - t0
    shutil.rmtree(tmpd, ignore_errors=True)
    text = open(outfile, errors='replace').read()
    res = dict(backend=backend, witness=witness, seconds=round(dt, 2), outfile=outfile, timed_out=timed_out, rc=p.returncode)
    mm = re.search(r'VF_RSS_KB=(\d+)', text)
    res['rss_mb'] = int(mm.group(1)) // 1024 if mm else None
    props = {}
    for line in text.split('\n'):
        m = RES_RE.match(line.strip())
        if m:
            props[m.group(1)] = (m.group(2), m.group(3))
    res['props'] = props
    mm = re.search(r'(\d+) of (\d+) failed', text)
    if 'VERIFICATION SUCCESSFUL' in text: res['verdict'] = 'SUCCESS'
    elif 'VERIFICATION FAILED' in text: res['verdict'] = 'FAILURE'
    elif timed_out: res['verdict'] = 'TIMEOUT'
    elif cancelled: res['verdict'] = 'CANCELLED'
    else: res['verdict'] = 'ERROR'
    if '(error' in text and res['verdict'] == 'SUCCESS':
        res['verdict'] = 'ERROR'
    mm = re.search(r'size of program expression: (\d+) steps', text)
    res['symex_steps'] = int(mm.group(1)) if mm else None
    mm = re.search(r'Generated (\d+) VCC\(s\), (\d+) remaining', text)
    res['vccs'] = int(mm.group(1)) if mm else None; res['vccs_remaining'] = int(mm.group(2)) if mm else None
    mm = re.search(r'(\d+) variables, (\d+) clauses', text)
    if mm: res['sat_vars'] = int(mm.group(1)); res['sat_clauses'] = int(mm.group(2))
    mm = re.search(r'Runtime Solver: ([0-9.e+-]+)s', text) or re.search(r'Runtime decision procedure: ([0-9.e+-]+)s', text)
    res['solver_s'] = float(mm.group(1)) if mm else None
    return res, text

def extract_traces(text):
    """returns {property_id: [vf_in values in index order]}"""
    out = {}
    parts = re.split(r'\nTrace for (\S+):\n', text)
    # parts[0] = preamble, then (id, body) pairs
    for i in range(1, len(parts) - 1, 2):
        pid = parts[i]; body = parts[i + 1]
        body = body.split('\nTrace for ')[0]
        vals = {}
        for m in re.finditer(r'vf_in\[(\d+)l*\]=(\d+)', body):
            vals[int(m.group(1))] = int(m.group(2))
        n = 0
        seq = []
        while n in vals:
            seq.append(vals[n]); n += 1
        out[pid] = seq
    return out

def run_irscan(o, tier, outdir):
    """C14 support: syntactic scan of the LLVM IR of the real code: every writable (non-constant) global, and every function
    that stores to it / passes its address on. A store by anything but a static initialiser is shared mutable state."""
    info = build_variant(o)
    text = open(info['ll']).read()      # un-optimised IR: nothing has been removed yet
    globs = {}
    for m in re.finditer(r'^@("(?:[^"\\]|\\.)*"|[-a-zA-Z$._0-9]+) = (?:[a-z_]+ )*global ', text, re.M):
        g = m.group(1).strip('"')
        line = text[m.start():text.index('\n', m.start())]
        if ' constant ' in line or g.startswith('llvm.') or ' external ' in line: continue
        globs[g] = dict(stores=[], address_uses=[], loads=[])
    dm = demangle_map(list(globs))
    cur = None
    for line in text.split('\n'):
        mm = re.match(r'^define [^@]*@("(?:[^"\\]|\\.)*"|[-a-zA-Z$._0-9]+)\(', line)
        if mm: cur = mm.group(1).strip('"'); continue
        if line == '}': cur = None; continue
        if cur is None or '@' not in line: continue
        for g in globs:
            if ('@' + g) not in line and ('@"' + g + '"') not in line: continue
            if not re.search(r'@"?' + re.escape(g) + r'"?(?![-a-zA-Z$._0-9])', line): continue
            s_ = line.strip()
            if s_.startswith('store ') and re.search(r',\s*[^,]*\*\s+(getelementptr[^@]*)?@"?' + re.escape(g), s_): globs[g]['stores'].append(cur)
            elif re.match(r'%\S+ = load ', s_): globs[g]['loads'].append(cur)
            else: globs[g]['address_uses'].append(cur)
    def is_init(fn): return fn.startswith('__cxx_global_var_init') or fn.startswith('_GLOBAL__sub_I_') or fn.startswith('__cxx_global_array_dtor')
    bad = []; report = []
    for g, u in sorted(globs.items()):
        harness_own = g.startswith('_ZL') and not g.startswith('_ZN') and 'Clipper2Lib' not in dm.get(g, g) and not g.startswith('_ZStL')
        wr = sorted(set(f for f in u['stores'] + u['address_uses'] if not is_init(f)))
        entry = dict(symbol=dm.get(g, g), written_or_escaping_in=wr, read_in=sorted(set(u['loads']))[:6], allowed=(dm.get(g, g) in o.allow_globals or g in o.allow_globals))
        report.append(entry)
        if wr and not entry['allowed'] and not harness_own: bad.append(entry)
    rec = dict(name=o.name, harness=o.fn, tu=o.tu, defs=list(o.defs), bound=o.bound, desc=o.desc, unwind=0, replaced={}, lifted=[], runs=[],
               witness=dict(backend='irscan', seconds=0, verdict='n/a', reached=len(globs) > 0), witness_replay=None,
               verdict='SUCCESS' if not bad else 'FAILURE', nprops=len(globs), solver_s=0, seconds=0.0, backend='irscan', symex_steps=0, vccs=len(globs),
               scan=report)
    if bad:
        os.makedirs(REPLAYDIR, exist_ok=True)
        path = os.path.join(REPLAYDIR, '%s-%s.globals.json' % (o.name.split('.')[0], re.sub(r'\W', '_', o.name)))
        json.dump(bad, open(path, 'w'), indent=1)
        rec['scan_violation'] = dict(replay=path, desc='writable global written outside static initialisation: ' + ', '.join(b['symbol'] + ' in ' + '/'.join(demangle_map(b['written_or_escaping_in']).values()) for b in bad)[:400])
    rec['_info'] = info
    return rec

def run_structscan(o, tier, outdir):
    """C14/C12 support: syntactic scan of the un-optimised LLVM IR of the real code for WRITES to objects of one struct type
    (o.scan_struct, e.g. struct.Clipper2Lib::Vertex): stores through a field address (or a nested field address), memcpy/memset
    with such an address as destination, whole-struct stores, and field addresses (other than field 0 handed on as a const
    reference) passed to calls. Every function doing so must be on o.allow_writers (demangled-name prefixes): the functions
    that build the objects. Anything else writes to data that may be shared (ReuseableDataContainer64)."""
    info = build_variant(o)
    text = open(info['ll']).read()
    st = o.scan_struct
    tyre = re.escape('%"' + st + '"')
    writers = {}
    cur = None; fieldptr = {}; structptr = set()
    for line in text.split('\n'):
        mm = re.match(r'^define [^@]*@("(?:[^"\\]|\\.)*"|[-a-zA-Z$._0-9]+)\(', line)
        if mm: cur = mm.group(1).strip('"'); fieldptr = {}; structptr = set(); continue
        if line == '}': cur = None; continue
        if cur is None: continue
        s_ = line.strip()
        m = re.match(r'(%[-a-zA-Z$._0-9]+) = getelementptr inbounds ' + tyre + r', ' + tyre + r'\* (%[-a-zA-Z$._0-9]+), i32 0, i32 (\d+)', s_)
        if m: fieldptr[m.group(1)] = int(m.group(3)); continue
        m = re.match(r'(%[-a-zA-Z$._0-9]+) = getelementptr inbounds [^,]+, [^,]+\* (%[-a-zA-Z$._0-9]+),', s_)
        if m and m.group(2) in fieldptr: fieldptr[m.group(1)] = fieldptr[m.group(2)]; continue      # nested field (pt.x, pt.y)
        m = re.match(r'(%[-a-zA-Z$._0-9]+) = bitcast (\S+) (%[-a-zA-Z$._0-9]+) to ', s_)
        if m and m.group(3) in fieldptr: fieldptr[m.group(1)] = fieldptr[m.group(3)]; continue
        if m and m.group(2) == '%"' + st + '"*': structptr.add(m.group(1)); continue
        m = re.match(r'store .*, \S+ (%[-a-zA-Z$._0-9]+)(,|$)', s_)
        if m and m.group(1) in fieldptr: writers.setdefault(cur, set()).add('store to field %d' % fieldptr[m.group(1)]); continue
        if re.match(r'store ' + tyre + r' ', s_): writers.setdefault(cur, set()).add('whole-struct store'); continue
        m = re.match(r'(?:%\S+ = )?(?:tail )?call .*@(llvm\.mem(?:cpy|move|set)[^(]*)\(i8\* (?:align \d+ )?(%[-a-zA-Z$._0-9]+)', s_)
        if m and (m.group(2) in fieldptr or m.group(2) in structptr): writers.setdefault(cur, set()).add(m.group(1).split('.')[1] + ' into the struct'); continue
        if o.scan_calls and (' call ' in (' ' + s_) or s_.startswith('invoke ')):
            for a in re.findall(r'(%[-a-zA-Z$._0-9]+)(?=[,)])', s_):
                if a in fieldptr and fieldptr[a] != 0: writers.setdefault(cur, set()).add('address of field %d passed to a call' % fieldptr[a])
    dm = demangle_map(list(writers))
    report = []; bad = []
    for f, w in sorted(writers.items()):
        name = dm.get(f, f)
        allowed = any(name.startswith(p) for p in o.allow_writers)
        e = dict(function=name, writes=sorted(w), allowed=allowed)
        report.append(e)
        if not allowed: bad.append(e)
    rec = dict(name=o.name, harness=o.fn, tu=o.tu, defs=list(o.defs), bound=o.bound, desc=o.desc, unwind=0, replaced={}, lifted=[], runs=[],
               witness=dict(backend='irscan', seconds=0, verdict='n/a', reached=(('%"' + st + '" = type') in text)), witness_replay=None,   # the type exists in the module: the scan looked at something
               verdict='SUCCESS' if not bad else 'FAILURE', nprops=len(report), solver_s=0, seconds=0.0, backend='irscan', symex_steps=0, vccs=len(report),
               scan=report)
    if bad:
        os.makedirs(REPLAYDIR, exist_ok=True)
        path = os.path.join(REPLAYDIR, '%s-%s.writers.json' % (o.name.split('.')[0], re.sub(r'\W', '_', o.name)))
        json.dump(bad, open(path, 'w'), indent=1)
        rec['scan_violation'] = dict(replay=path, desc=('%s written outside its builders: ' % st + '; '.join('%s (%s)' % (b['function'][:90], ', '.join(b['writes'])) for b in bad))[:400])
    rec['_info'] = info
    return rec

def run_obligation(o, tier, outdir):
    """runs property + witness queries; returns result record"""
    if o.kind == 'irscan' and o.scan_struct:
        return run_structscan(o, tier, outdir)
    if o.kind == 'irscan':
        return run_irscan(o, tier, outdir)
    info = build_variant(o)
    timeout = o.timeout or (150 if tier == 'quick' else 900)
    rec = dict(name=o.name, harness=o.fn, tu=o.tu, defs=list(o.defs), bound=o.bound, desc=o.desc, unwind=o.unwind,
               replaced=info['replaced'], lifted=info.get('lifted', []), runs=[])
    # witness (first backend, sat default is fine for witness unless pinned)
    wb = o.backend[0]
    with ThreadPoolExecutor(max_workers=1 + len(o.backend)) as ex:
        futs = {}
        futs[ex.submit(run_cbmc_once, o, info, wb if wb != 'cvc5int' else 'cvc5int', True, timeout, outdir)] = ('w', wb)
        cancel = threading.Event(); hard_cancel = threading.Event()
        for b in o.backend:
            futs[ex.submit(run_cbmc_once, o, info, b, False, timeout, outdir, hard_cancel if o.crosscheck else cancel)] = ('p', b)
        results = {}
        for f in as_completed(futs):
            kind, b = futs[f]
            res, text = f.result()
            results[(kind, b)] = (res, text)
            if kind == 'p' and res['verdict'] in ('SUCCESS', 'FAILURE'):
                cancel.set()
                if res['verdict'] == 'FAILURE': hard_cancel.set()
    wres, wtext = results[('w', wb)]
    rec['witness'] = dict(backend=wb, seconds=wres['seconds'], verdict=wres['verdict'],
                          reached=any(d == 'VF_WITNESS' and s == 'FAILURE' for d, s in wres['props'].values()))
    # the witness trace is a complete run of the harness in CBMC's model: replay it on both native builds
    rec['witness_replay'] = None
    if rec['witness']['reached']:
        try:
            tr = extract_traces(wtext)
            vals = next(iter(tr.values())) if tr else None
            if vals is not None:
                wpath = os.path.join(outdir, 'witness-%s.inputs' % re.sub(r'\W', '_', o.name))
                open(wpath, 'w').write(''.join('in %d\n' % v for v in vals))
                rcs = []
                for exe in (build_replay(info), build_cnative(info)):
                    try:
                        r = subprocess.run([exe, o.fn, wpath], stdout=subprocess.PIPE, stderr=subprocess.DEVNULL, text=True, timeout=60)
                        rcs.append((r.returncode, r.stdout.strip().split('\n')[-1][:160]))
                    except subprocess.TimeoutExpired:
                        rcs.append(('timeout', ''))
                rec['witness_replay'] = rcs
        except BuildError as e:
            rec['witness_replay'] = [('build', str(e)[-200:])]
    best = None
    for b in o.backend:
        res, text = results[('p', b)]
        rec['runs'].append({k: res.get(k) for k in ('backend', 'seconds', 'verdict', 'rss_mb', 'symex_steps', 'vccs', 'vccs_remaining', 'sat_vars', 'sat_clauses', 'solver_s', 'timed_out')})
        if res['verdict'] in ('SUCCESS', 'FAILURE') and best is None:
            best = (res, text)
    verdicts = set(r['verdict'] for r in rec['runs'] if r['verdict'] in ('SUCCESS', 'FAILURE'))
    if len(verdicts) == 2:
        rec['verdict'] = 'DISAGREE'
    elif best is None:
        rec['verdict'] = 'INCONCLUSIVE'
        rec['why'] = ','.join(r['verdict'] for r in rec['runs'])
    else:
        rec['verdict'] = best[0]['verdict']
        rec['nprops'] = len(best[0]['props'])
        rec['solver_s'] = best[0]['solver_s']; rec['seconds'] = best[0]['seconds']; rec['backend'] = best[0]['backend']
        rec['symex_steps'] = best[0].get('symex_steps'); rec['vccs'] = best[0].get('vccs')
        rec['failed'] = [(pid, d) for pid, (d, s) in best[0]['props'].items() if s == 'FAILURE']
        rec['_text'] = best[1] if best[0]['verdict'] == 'FAILURE' else None
    rec['_info'] = info
    return rec

def write_replay_file(pid, o, prop_desc, vals):
    os.makedirs(REPLAYDIR, exist_ok=True)
    body = ''.join('in %d\n' % v for v in vals)
    h = hashlib.sha1((o.name + prop_desc + body).encode()).hexdigest()[:10]
    path = os.path.join(REPLAYDIR, '%s-%s-%s.inputs' % (pid, re.sub(r'[^A-Za-z0-9_.-]', '_', o.name), h))
    with open(path, 'w') as f:
        f.write('# property %s\n# obligation %s\n# harness %s\n# tu %s\n# failed %s\n' % (pid, o.name, o.fn, o.tu, prop_desc))
        f.write(body)
    return path

def native_replay(o, info, path, sanitize=False, timeout=60):
    exe = build_replay(info, sanitize)
    try:
        r = subprocess.run([exe, o.fn, path], stdout=subprocess.PIPE, stderr=subprocess.STDOUT, text=True, timeout=timeout)
        return r.returncode, r.stdout
    except subprocess.TimeoutExpired:
        return 'timeout', ''

def load_known():
    """known_findings.txt: 'finding: property=<id> tag=<KNOWN:tu:line or obligation/class tag> <text>' and 'fixed: ...' lines"""
    out = []
    p = os.path.join(VERIF, 'known_findings.txt')
    if os.path.exists(p):
        for line in open(p):
            line = line.strip()
            if line.startswith('finding:'):
                kv = dict(re.findall(r'(\w+)=(\S+)', line))
                kv['_line'] = line
                out.append(kv)
    return out

def classify_failures(pid, o, rec, known):
    """turn a FAILURE record into confirmed violations / known findings / machinery errors."""
    info = rec['_info']; text = rec.pop('_text')
    traces = extract_traces(text)
    outcome = dict(violations=[], known=[], errors=[], ub_notes=[])
    seen_inputs = set()
    for cbmc_id, desc in rec['failed']:
        vals = traces.get(cbmc_id)
        if vals is None:
            outcome['errors'].append('no trace for %s (%s)' % (cbmc_id, desc)); continue
        path = write_replay_file(pid, o, desc, vals)
        is_va = desc.startswith('VA:') or desc.startswith('KNOWN:')
        if is_va:
            rc, out = native_replay(o, info, path)
            want = desc.split(':')[-1]
            tagword = 'VA' if desc.startswith('VA:') else 'KNOWN'
            if rc == 3 and ('%s line %s FAILED' % (tagword, want)) in out:
                if desc.startswith('KNOWN:'):
                    kf = [k for k in known if k.get('property') == pid and k.get('obligation') == o.name]
                    if kf:
                        outcome['known'].append(dict(desc=desc, replay=path, entry=kf[0]['_line']))
                        continue
                outcome['violations'].append(dict(desc=desc, replay=path, obligation=o.name))
            elif rc == 3:
                # failed natively, but at a different assertion of the same harness: still a real failure
                outcome['violations'].append(dict(desc=desc + ' (native: ' + out.strip().split('\n')[-1] + ')', replay=path, obligation=o.name))
            else:
                outcome['errors'].append('counterexample for %s did not reproduce natively (rc=%s): %s' % (desc, rc, out.strip()[-200:]))
        elif desc.startswith('LIFT:'):
            outcome['errors'].append('exact-double lifting side condition failed (harness range too wide or arithmetic changed): %s' % desc)
        elif 'unwinding assertion' in desc:
            rc, out = native_replay(o, info, path, timeout=20)
            if rc == 'timeout':
                outcome['violations'].append(dict(desc='non-termination: ' + desc, replay=path, obligation=o.name))
            elif isinstance(rc, int) and rc < 0:
                # the native run of the same inputs dies on a signal: unbounded recursion ends in a stack overflow (SIGSEGV)
                outcome['violations'].append(dict(desc='unbounded recursion / crash (native replay killed by signal %d): %s' % (-rc, desc), replay=path, obligation=o.name))
            else:
                outcome['errors'].append('unwinding bound too small: %s' % desc)
        else:
            # built-in check (bounds, pointer, overflow, division, shift, stub reached)
            try:
                if desc.startswith('nsw ') or o.replace:
                    # arithmetic-overflow assertions live in the generated C: replay that (gcc-compiled, assertions active)
                    exe = build_cnative(info)
                else:
                    exe = build_replay_cpp_san(o, info)
                r = subprocess.run([exe, o.fn, path], stdout=subprocess.PIPE, stderr=subprocess.STDOUT, text=True, timeout=120)
                rc, out = r.returncode, r.stdout
            except subprocess.TimeoutExpired:
                rc, out = 'timeout', ''
            except BuildError as e:
                rc, out = 0, str(e)
            if rc not in (0, 4, 5) or 'runtime error' in out or 'AddressSanitizer' in out:
                outcome['violations'].append(dict(desc=desc + ' (native replay confirms: ' + (out.strip().split('\n')[-1][:120] if out.strip() else str(rc)) + ')', replay=path, obligation=o.name))
            elif ('pointer' in desc and 'overflow' in desc) or 'pointer relation' in desc or 'pointer arithmetic' in desc or re.search(r'overflow on signed - in \(u8 \*\)', desc):
                # standard-level pointer UB in CBMC's object model (e.g. difference of pointers it places in different objects) that no
                # sanitizer confirms: reported separately, never as a violation (DESIGN 1.3)
                outcome['ub_notes'].append(dict(desc=desc, replay=path))
            else:
                outcome['errors'].append('built-in check %s failed in CBMC but native sanitizer run is clean (rc=%s)' % (desc, rc))
    return outcome

def load_prop(pid):
    path = os.path.join(VERIF, 'props', pid + '.py')
    spec = importlib.util.spec_from_file_location('prop_' + pid, path)
    mod = importlib.util.module_from_spec(spec)
    mod.O = O
    spec.loader.exec_module(mod)
    return mod

def selftest(infos, outdir):
    """translator validation: harness TUs may define selftest_<name>() functions that print through out_*;
    the generated C (gcc) and the clang-compiled IR must print the same."""
    results = []
    for info in infos:
        ctext = open(info['c']).read()
        fns = sorted(set(re.findall(r'\b(selftest_\w+)\(void\) \{', ctext)))
        if not fns or info.get('replaced'): continue   # stubs need harness state: self-test only un-substituted variants
        try:
            a = build_replay(info); b = build_cnative(info)
        except BuildError as e:
            results.append(dict(tu=info['tu'], ok=False, why=str(e)[-500:])); continue
        for fn in fns:
            ra = sh([a, fn], timeout=120); rb = sh([b, fn], timeout=120)
            ok = ra.returncode == 0 and rb.returncode == 0 and ra.stdout == rb.stdout and 'o ' in ra.stdout + 'f '
            results.append(dict(tu=info['tu'], fn=fn, ok=ok, lines=ra.stdout.count('\n'),
                                why='' if ok else ('rc %s/%s\n%s\n---\n%s' % (ra.returncode, rb.returncode, ra.stdout[-300:], rb.stdout[-300:]))))
    return results

DIFF_POOL = [0, 1, 2, 3, 4, 5, 7, 100, 1000, (1 << 64) - 1, (1 << 64) - 3, 1 << 20, (1 << 64) - (1 << 20), 1 << 40,
             0x3FF0000000000000, 0xBFF0000000000000, 0x4004000000000000, 0xC059000000000000, 0x3FE0000000000000, 0x40C3880000000000]

def harness_differential(obls, infos_by_variant, seed, outdir, per_harness=4):
    """translator validation on the harnesses themselves: the clang-compiled IR (real code) and the gcc-compiled generated C
    must behave identically (exit status and printed output) on pseudo-random input vectors. Decides nothing about a property."""
    import random
    rnd = random.Random(seed * 7919 + 17)
    results = []; done = set()
    for o in obls:
        key = (o.variant(), o.fn)
        if key in done or o.kind != 'cbmc': continue
        done.add(key)
        info = infos_by_variant.get(o.variant())
        if info is None: continue
        try:
            a = build_replay(info); b = build_cnative(info)
        except BuildError as e:
            results.append(dict(fn=o.fn, ok=False, why=str(e)[-300:])); continue
        for k in range(per_harness):
            vec = [0] * 64 if k == 0 else [rnd.choice(DIFF_POOL) if rnd.random() < 0.8 else rnd.getrandbits(64) for _ in range(64)]
            path = os.path.join(outdir, 'diff-%s-%d.inputs' % (re.sub(r'\W', '_', o.name), k))
            open(path, 'w').write(''.join('in %d\n' % v for v in vec))
            def runit(exe):
                try:
                    r = subprocess.run([exe, o.fn, path], stdout=subprocess.PIPE, stderr=subprocess.DEVNULL, text=True, timeout=30)
                    out = re.sub(r'(VA|KNOWN):[^ ]*:(\d+) FAILED', r'\1 line \2 FAILED', r.stdout)   # same wording for both builds
                    return r.returncode, out
                except subprocess.TimeoutExpired:
                    return 'timeout', ''
            ra, rb = runit(a), runit(b)
            # assertions that exist only in the generated C (arithmetic / lifting side conditions) may stop it earlier: not a mismatch
            extra = rb[0] == 3 and re.search(r'REPLAY: (nsw|LIFT|IR2C|STUB)', rb[1]) is not None
            ok = extra or ra == rb
            results.append(dict(fn=o.fn, vector=k, ok=ok, rc=[ra[0], rb[0]], why='' if ok else (ra[1][-200:] + ' | ' + rb[1][-200:])))
    return results

def do_replay(pid, path):
    mod = load_prop(pid)
    hdr = dict(re.findall(r'^# (\w+) (.*)$', open(path).read(), re.M))
    cands = [o for o in mod.OBLIGATIONS if o.name == hdr.get('obligation')]
    if not cands:
        log('unknown obligation in replay file'); return 2
    o = cands[0]
    info = build_variant(o)
    rc, out = native_replay(o, info, path)
    log(out)
    if rc in (0,):
        try:
            exe = build_cnative(info)
            r = subprocess.run([exe, o.fn, path], stdout=subprocess.PIPE, stderr=subprocess.STDOUT, text=True, timeout=120)
            rc, out = r.returncode, r.stdout
            log('(generated-C replay with arithmetic assertions) ' + out)
        except Exception as e:
            log('generated-C replay not available: %s' % e)
    return 1 if rc not in (0, 4, 5) else 0

def main():
    args = sys.argv[1:]
    if not args:
        print(__doc__); return 2
    pid = args[0]
    tier = os.environ.get('VERIF_TIER', 'quick')
    only = None; jobs = None
    i = 1
    while i < len(args):
        if args[i] == '--tier': tier = args[i + 1]; i += 2
        elif args[i] == '--only':
            only = args[i + 1]; i += 2
            global PARTIAL_RUN
            PARTIAL_RUN = True
        elif args[i] == '--jobs': jobs = int(args[i + 1]); i += 2
        elif args[i] == '--replay': return do_replay(pid, args[i + 1])
        else: i += 1
    seed = int(os.environ.get('VERIF_SEED', '0') or 0)
    t0 = time.time()
    mod = load_prop(pid)
    tl = 'q' if tier == 'quick' else ('x' if tier == 'x' else 't')
    obls = [o for o in mod.OBLIGATIONS if tl in o.tiers and (only is None or only in o.name)]
    outdir = os.path.join(BUILD, 'out-%s-%s' % (pid, tier))
    shutil.rmtree(outdir, ignore_errors=True); os.makedirs(outdir)
    known = load_known()
    # front end
    infos = {}
    errors = []
    with ThreadPoolExecutor(max_workers=8) as ex:
        futs = {ex.submit(build_variant, o): o for o in obls}
        for f in as_completed(futs):
            try:
                info = f.result(); infos[info['dir']] = info
            except BuildError as e:
                errors.append(str(e))
    if errors:
        for e in errors: log('BUILD ERROR: ' + e)
        write_evidence(pid, tier, seed, mod, [], [], [], [], errors, time.time() - t0)
        return 2
    st = selftest(list(infos.values()), outdir) if only is None else []
    for s in st:
        if not s['ok']:
            errors.append('translator self-test mismatch in %s %s: %s' % (s['tu'], s.get('fn'), s['why']))
    by_variant = {}
    for o in obls:
        try: by_variant[o.variant()] = build_variant(o)
        except BuildError: pass
    hd = harness_differential(obls, by_variant, seed, outdir)
    for h in hd:
        if not h['ok']:
            errors.append('translator differential mismatch in harness %s (vector %s, rc %s): %s' % (h['fn'], h.get('vector'), h.get('rc'), h['why']))
    # obligations: each uses 1 witness + len(backends) cbmc processes
    nj = jobs or max(1, 16 // 2)
    recs = []
    with ThreadPoolExecutor(max_workers=nj) as ex:
        futs = {ex.submit(run_obligation, o, tier, outdir): o for o in obls}
        for f in as_completed(futs):
            o = futs[f]
            try:
                rec = f.result()
            except BuildError as e:
                errors.append(str(e)); continue
            rec['_o'] = o
            recs.append(rec)
            log('[%s] %-40s %-12s witness=%s %5.1fs %s' % (pid, o.name, rec['verdict'], rec['witness']['reached'],
                                                       rec.get('seconds') or max([r['seconds'] for r in rec['runs']] + [0]), rec.get('backend', '')))
    recs.sort(key=lambda r: [o.name for o in obls].index(r['name']))
    violations = []; knowns = []; ub_notes = []
    for rec in recs:
        o = rec.pop('_o')
        if rec['verdict'] == 'FAILURE' and o.kind == 'irscan':
            violations.append(dict(desc=rec['scan_violation']['desc'], replay=rec['scan_violation']['replay'], obligation=o.name))
        elif rec['verdict'] == 'FAILURE':
            oc = classify_failures(pid, o, rec, known)
            violations += oc['violations']; knowns += oc['known']; ub_notes += oc['ub_notes']
            errors += ['%s: %s' % (o.name, e) for e in oc['errors']]
            rec['outcome'] = dict(violations=len(oc['violations']), known=len(oc['known']), errors=oc['errors'], ub_notes=len(oc['ub_notes']))
            if not oc['violations'] and not oc['known'] and not oc['errors'] and oc['ub_notes']:
                rec['verdict'] = 'SUCCESS'      # every assertion of the property holds; only unconfirmable pointer-model notes remain (listed)
        elif rec['verdict'] == 'DISAGREE':
            errors.append('%s: back ends disagree' % o.name)
        elif rec['verdict'] == 'SUCCESS' and rec.get('witness_replay') and any(rc != 0 for rc, _ in rec['witness_replay']):
            errors.append('%s: CBMC proved the harness but its own witness run does not complete natively (model/native mismatch): %s' % (o.name, rec['witness_replay']))
        elif rec['verdict'] == 'SUCCESS' and not rec['witness']['reached'] and rec['witness']['verdict'] in ('TIMEOUT', 'ERROR', 'CANCELLED'):
            rec['verdict'] = 'INCONCLUSIVE'; rec['why'] = 'property query succeeded but the vacuity-witness query did not finish (%s): not counted' % rec['witness']['verdict']
        elif rec['verdict'] == 'SUCCESS' and not rec['witness']['reached']:
            errors.append('%s: vacuity witness not reached (assumptions unsatisfiable or harness end unreachable; witness verdict %s)' % (o.name, rec['witness']['verdict']))
        rec.pop('_info', None); rec.pop('_text', None)
    for k in knowns:
        log('KNOWN-FINDING: property=%s %s' % (pid, re.sub(r'^finding:\s*property=\S+\s*', '', k['entry'])))
    shown = set(); builtin_shown = {}
    for v in violations:
        if (v['replay'], v['desc']) in shown: continue
        shown.add((v['replay'], v['desc']))
        if not v['desc'].startswith('VA:'):
            # CBMC reports one failure per kind of invalid pointer for the same dereference: print the first few per obligation (all are in the evidence)
            builtin_shown[v['obligation']] = builtin_shown.get(v['obligation'], 0) + 1
            if builtin_shown[v['obligation']] > 3: continue
        log('VIOLATION property=%s replay=%s  (%s: %s)' % (pid, v['replay'], v['obligation'], v['desc']))
    for ob, n_ in builtin_shown.items():
        if n_ > 3: log('  (%s: %d further built-in check failures not printed; replay files are listed in the evidence)' % (ob, n_ - 3))
    for u in ub_notes:
        log('UB-NOTE (not confirmed natively, not a violation): %s' % u['desc'])
    for e in errors:
        log('MACHINERY-ERROR: ' + e)
    wall = time.time() - t0
    write_evidence(pid, tier, seed, mod, recs, violations, knowns, ub_notes, errors, wall, list(infos.values()), st, hd)
    inconc = [r['name'] for r in recs if r['verdict'] == 'INCONCLUSIVE']
    log('[%s] tier=%s obligations=%d discharged=%d inconclusive=%d violations=%d known=%d errors=%d wall=%.1fs' % (
        pid, tier, len(recs), sum(1 for r in recs if r['verdict'] == 'SUCCESS' and r['witness']['reached']), len(inconc), len(violations), len(knowns), len(errors), wall))
    if violations: return 1
    if errors: return 2
    return 0

def write_evidence(pid, tier, seed, mod, recs, violations, knowns, ub_notes, errors, wall, infos=(), st=(), hd=()):
    os.makedirs(EVIDENCEDIR, exist_ok=True)
    evdir = EVIDENCEDIR if not PARTIAL_RUN else os.path.join(BUILD, 'evidence-partial')   # --only runs never overwrite the real evidence
    os.makedirs(evdir, exist_ok=True)
    meta = getattr(mod, 'META', {})
    conclusive = [r for r in recs if r['verdict'] in ('SUCCESS', 'FAILURE') and r['witness']['reached']]
    samples = [dict(obligation=r['name'], harness=r['harness'], tu=r['tu'], bound=r['bound'], what=r['desc'], unwind=r['unwind'],
                    verdict=r['verdict'], backend=r.get('backend'), solver_s=r.get('solver_s'), wall_s=r.get('seconds'),
                    properties_checked=r.get('nprops'), witness_reached=r['witness']['reached'], witness_replayed_natively=r.get('witness_replay'), runs=r['runs'],
                    abstractions=r['replaced'], lifted_exact_double=r.get('lifted', []), why=r.get('why'), global_scan=r.get('scan')) for r in recs]
    ev = dict(property_id=pid, tier=tier, seed=seed, level='model_checking',
              coverage=dict(
                  evaluations=max(len(recs), 0), distinct_nontrivial=len(conclusive),
                  rule='one evaluation = one solver-decided proof obligation (a harness over the real Clipper2 functions, translated from LLVM IR of /repo, '
                       'checked by CBMC for all inputs within the stated bound); counted non-trivial only if the verdict is conclusive and its vacuity witness '
                       '(assert(false) at the harness end) is reachable',
                  samples=samples, exhaustive=False,
                  states=max(1, sum((r.get('symex_steps') or 0) for r in recs)), transitions=max(1, sum((r.get('vccs') or 0) for r in recs)),
                  traces_validated_against_impl=sum(1 for r in recs if r.get('witness_replay') and all(rc == 0 for rc, _ in r['witness_replay'])) + len(violations) + len(knowns),
                  states_transitions_meaning='states = SSA steps of the symbolic execution (CBMC "size of program expression"), summed over obligations; transitions = verification conditions generated; traces_validated = CBMC witness/counterexample traces replayed on the natively compiled real code',
                  obligations=len(recs), discharged=sum(1 for r in conclusive if r['verdict'] == 'SUCCESS'),
                  inconclusive=[r['name'] for r in recs if r['verdict'] == 'INCONCLUSIVE'],
                  functions_encoded=meta.get('functions', []),
                  translation_units=[dict(tu=i['tu'], defs=i['defs'], ir_functions=i['ir_functions'], ir_lines=i['ir_lines'], c_lines=i['c_lines'],
                                          abstractions=i['replaced']) for i in infos],
                  solver_seconds_total=round(sum((r.get('solver_s') or 0) for r in recs), 2),
                  translator_selftests=[dict(tu=s['tu'], fn=s.get('fn'), ok=s['ok'], lines=s.get('lines')) for s in st],
                  translator_harness_differential=dict(runs=len(hd), agreed=sum(1 for h in hd if h['ok']), completed_both=sum(1 for h in hd if h.get('rc') == [0, 0])),
                  known_findings=[k['entry'] for k in knowns], ub_notes=ub_notes, machinery_errors=errors,
                  outside_claim=meta.get('outside', []),
                  checker_cmd='cbmc 6.11.0 --unwinding-assertions (per-obligation flags in samples)'),
              assumptions=meta.get('assumptions', []) + [
                  'stubs: std::__throw_length_error/bad_alloc/bad_array_new_length are assert(0) (reaching them is reported), ios_base::Init empty, operator new never fails (--no-malloc-may-fail)',
                  'trusted: clang-14 front end, opt-14 passes, ir2c translator (differentially self-tested each run), CBMC semantics of C'],
              wall_s=round(wall, 2), violations=len(violations))
    with open(os.path.join(evdir, pid + '.json'), 'w') as f:
        json.dump(ev, f, indent=1)

if __name__ == '__main__':
    sys.exit(main())
