#!/bin/sh
# usage: run_seed.sh <seed-dir-name e.g. C01-1> <property> [check args...]
# Runs a property's check against a scratch worktree of /repo with the seeded patch applied (isolated build/replay/evidence dirs).
SEED=$1; PROP=$2; shift 2
WT=/tmp/seedrun-$SEED-$PROP
rm -rf $WT /tmp/seedrun-build-$SEED-$PROP; git -C /repo worktree prune
git -C /repo worktree add -q --detach $WT HEAD || exit 2
git -C $WT apply /verif/seeded/$SEED/patch.diff || { echo "patch failed"; git -C /repo worktree remove --force $WT; exit 2; }
VERIF_REPO=$WT VERIF_BUILD=/tmp/seedrun-build-$SEED-$PROP VERIF_REPLAY=/tmp/seedrun-build-$SEED-$PROP/replay VERIF_EVIDENCE=/tmp/seedrun-build-$SEED-$PROP/evidence /verif/check $PROP "$@" 2>&1 | grep "VIOLATION\|MACHINERY\|KNOWN\|tier=\|BUILD\|INCONCL" | cut -c1-260
echo "SEEDRUN $SEED vs $PROP exit=$?"
git -C /repo worktree remove --force $WT; rm -rf /tmp/seedrun-build-$SEED-$PROP
